#!/bin/bash
# Usage: try_seed.sh <patch.diff> <PROP> [<PROP>...]  — applies a seeded change to /repo, runs the
# given checks (quick tier), and always restores /repo afterwards.
patch="$1"; shift
cd /repo || exit 2
if [ -n "$(git status --porcelain)" ]; then echo "/repo not clean"; exit 2; fi
git apply "$patch" || { echo "patch does not apply"; exit 2; }
trap 'git -C /repo checkout -- . ' EXIT
for p in "$@"; do
  start=$(date +%s)
  out=$(VERIF_OUT_DIR=/tmp/seedout /verif/check "$p" --tier quick 2>&1)
  rc=$?
  echo "== $p exit=$rc ($(( $(date +%s) - start )) s)"
  echo "$out" | grep -E "^(violation detail|VIOLATION|INCONCLUSIVE|KNOWN)" | cut -c1-300 | head -4
done
