#!/usr/bin/env python3
"""Validates MANIFEST.json and all evidence files against the schemas (run with python3-vt)."""
import json, jsonschema, glob, sys
ok = True
try:
    jsonschema.validate(json.load(open('/verif/MANIFEST.json')), json.load(open('/root/.vp/MANIFEST.schema.json')))
    print("MANIFEST ok")
except Exception as e:
    ok = False; print("MANIFEST INVALID:", e)
s = json.load(open('/root/.vp/EVIDENCE.schema.json'))
for f in sorted(glob.glob('/verif/evidence/*.json')):
    try:
        jsonschema.validate(json.load(open(f)), s); print(f, "ok")
    except Exception as e:
        ok = False; print(f, "INVALID:", str(e)[:300])
sys.exit(0 if ok else 1)
