#!/usr/bin/env python3
"""Confirms a sub-agent's seeded change in its scratch worktree: the demonstration fails with the
change and passes without it, and the existing lib + cluster tests pass with it. Then stores it
under /verif/seeded/<PID>-<V>/ with meta.json. Usage: confirm_seed.py C02 A [detected-by ...]"""
import json, os, re, shutil, subprocess, sys
pid, v = sys.argv[1], sys.argv[2]
detected_by = sys.argv[3:]
R=os.environ.get('ROUND','1')
sfx='' if R=='1' else R
wt=f'/tmp/seedwork/wt{sfx}-{pid}'; out=f'/tmp/seedwork/out{sfx}-{pid}/{v}'
env=dict(os.environ, RUSTUP_TOOLCHAIN='1.88.0', CARGO_NET_OFFLINE='true')
def sh(cmd): return subprocess.run(cmd, shell=True, cwd=wt, env=env, capture_output=True, text=True)
readme=open(f'{out}/README.md').read()
names=[n for n in re.findall(r'--test\s+([A-Za-z0-9_]+)', readme) if n not in ('cluster_test','perf_test')]
assert names, 'no --test name in README'
name=names[0]
m2=re.search(r'cargo test[^\n]*?-p\s+(\S+)[^\n]*--test\s+'+re.escape(name), readme)
pkg=m2.group(1) if m2 else 'chitchat'
m3=re.search(r'--features\s+(\S+)', readme)
feat=('--features '+m3.group(1).strip('`')) if m3 else ''
assert sh('git status --porcelain').stdout.strip()=='' , 'worktree not clean'
demo_dst=f'{wt}/{pkg}/tests/{name}.rs'
ran=[]
try:
    shutil.copy(f'{out}/demo.rs', demo_dst)
    r0=sh(f'cargo test -p {pkg} --offline {feat} --test {name}')
    ran.append(f'unchanged: cargo test -p {pkg} --offline {feat} --test {name} -> exit {r0.returncode}')
    assert r0.returncode==0, 'demo does not pass on unchanged code:\n'+r0.stdout[-1500:]
    assert sh(f'git apply {out}/patch.diff').returncode==0, 'patch does not apply'
    r1=sh(f'cargo test -p {pkg} --offline {feat} --test {name}')
    ran.append(f'with change: same command -> exit {r1.returncode}')
    assert r1.returncode!=0, 'demo does not fail with the change'
    fail_line=[l for l in r1.stdout.splitlines() if 'panicked' in l or 'FAILED' in l][:2]
    r2=sh('cargo test -p chitchat --offline --lib')
    ran.append(f'with change: cargo test -p chitchat --offline --lib -> exit {r2.returncode}')
    assert r2.returncode==0, 'lib tests fail with the change:\n'+r2.stdout[-1500:]
    r3=sh('cargo test -p chitchat --offline --test cluster_test')
    ran.append(f'with change: cargo test -p chitchat --offline --test cluster_test -> exit {r3.returncode}')
    assert r3.returncode==0, 'cluster tests fail with the change'
finally:
    sh('git checkout -- .'); 
    if os.path.exists(demo_dst): os.remove(demo_dst)
dst=f'/verif/seeded/{pid}-{v}' if R=='1' else f'/verif/seeded/{pid}-R{R}{v}'
os.makedirs(dst, exist_ok=True)
for f in ['patch.diff','demo.rs','README.md']: shutil.copy(f'{out}/{f}', f'{dst}/{f}')
meta={'property':pid,'variant':v,'demo_test_name':name,'demo_needs_feature_verif':bool(feat),
      'demo_placement':f'{pkg}/tests/{name}.rs',
      'what_it_needs_to_manifest':'see README.md (written by the sub-agent that produced the change)',
      'confirmed_by_me':ran,'demo_failure_excerpt':fail_line,
      'source':'independent sub-agent given only the property text and a scratch worktree' + ('' if R=='1' else f' (round {R}: also told which mechanisms had been tried and asked for changes a random-history tester would be unlikely to reach)'),
      'detected_by':detected_by}
json.dump(meta, open(f'{dst}/meta.json','w'), indent=1)
print('CONFIRMED', pid, v, name, fail_line[:1])
