#!/usr/bin/env python3
"""Generates round-N sub-agent prompts (/tmp/seedwork/prompt<N>-<PID>.txt; N from argv, default 2): same task as round 1 but
listing the mechanisms already tried, and asking for changes a generic random-history tester would
be unlikely to hit."""
import json
props={json.loads(l)['id']:json.loads(l) for l in open('/verif/properties.jsonl')}
TRIED={
'C01':["staleness_score returns None for a known member with no stale key-values (SetMaxVersion-only delta never sent)","should_reset drops its second conjunct (from-0 delta for an in-sync peer, truncated at the same place forever)","receiver admission `<=` -> `<`","dropping try_set_max_version"],
'C02':["`break` instead of `return finish()` on MTU overflow (SetMaxVersion sent for a member whose key-values did not fit)","reset_node early-returns for an empty copy (joiner keeps watermark 0)","removing the already-GCed-tombstone skip","reset keeps entries","stale key-values sent unsorted"],
'C03':["receiver keeps the previous DeletionStatus when both old and new are deletions","IPv4-mapped IPv6 canonicalised on decode","key/value swapped in both encoder and decoder","SetMaxVersion carries max(max_version, last_gc_version)"],
'C04':["`last_gc_version <= self.last_gc_version` -> `==` in check_delta_status","set() no-op shortcut uses !is_deleted() instead of status == Set","accepting version == current max"],
'C05':["reset path taken for a from-0 delta whose max version equals the owner's (owner resets its own state)","offer when max_version == digest max"],
'C06':["iter_prefix stops at the first tombstone","GC watermark takes the last collected version in key order instead of the max","GC grace comparison `<` -> `<=`","GC ignores TTL entries","iter_prefix lower bound excluded"],
'C07':["try_set_max_version bypasses the budget check","`break` instead of `return` on overflow","budget +1","block header counted as 2 bytes","scheduled-for-deletion members kept"],
'C08':["SocketAddr::serialize writes ip().to_canonical() but serialized_len unchanged","decompression buffer shrunk to 16,384","digest field order swapped","Ack length off by one"],
'C09':["apply_delta accepts version == current max (two keys at one version -> reply builder assert)","report_heartbeat no longer skips the node's own id (heartbeat overflow)","decoder drops the strictly-increasing-version check"],
'C10':["try_set_heartbeat stores unconditionally (stored heartbeat moves backward)","BoundedArrayStats::clear forgets is_filled","sampling window not cleared when dead","max_interval filter dropped"],
'C11':["try_set_heartbeat stores lower values","BoundedArrayStats::clear forgets is_filled","heartbeat `>` -> `>=`"],
'C12':["removed-member memory not popped on re-creation + get_or_insert on removal","report_heartbeat erases the time of death","grace/2 -> grace","GC memory not consulted"],
'C13':["members with max_version < last_gc_version filtered out of the published value","change detection only compares the number of live nodes and known nodes' versions","publication keyed on the live set only"],
'C14':["should_reset `<` -> `<=` on digest max","SetMaxVersion only for members with no keys at all","receiver admission boundary changes"],
'C15':["listener range loop breaks on prefix length instead of order","equal-version update no longer treated as stale (re-fires via catch-up)","upper bound exclusive","notify on delete"],
'C16':["cluster id compared with zip() over the shorter string","cluster_id() trims whitespace but the SYN builder does not","heartbeats reported before the cluster check"],
'C17':["live/dead counts swapped in the dead-peer probability","fallback branch (no live peer) loses the sample(3) bound","GOSSIP_COUNT 4","seed shortcut removed"],
'C18':["removed member with heartbeat 0 not remembered","catch-up reports a heartbeat to the failure detector","watermark overwritten","GC memory ignored"],
'C19':["`?` on handle_message in the select loop","zero-length UDP datagram treated as fatal","fatal recv error swallowed"],
'C20':["`contains_reset |=` -> `=`","callback Option taken on first use","callback on every applied delta"],
}
R2={'C01': ['apply_delta `break` instead of `continue` on a member unknown to the receiver', 'SYN-ACK delta budget additionally reduced by the cluster id length (exact-fit value never sent when the lagging node initiates)'], 'C02': ['catch-up guard `max_version < last_gc_version()` replaced by a dead condition (catch-up from a stale peer into a mid-reset copy)', "'delta from the future' check relaxed to from > max(max_version, last_gc_version) (delayed SYN-ACK accepted after a truncated reset)"], 'C03': ['manual Ord for ChitchatId ignoring the address', 'catch-up clears the value of TTL entries'], 'C04': ['GC watermark accumulator no longer starts from the current watermark (sub-watermark tombstone from catch-up lowers it)', 'GC clamps last_gc_version to max_version'], 'C05': ["catch-up 'already up to date' gate compares (max_version, last_gc_version) lexicographically (catch-up about own id)", 'remove_node forgets every incarnation sharing the node_id'], 'C06': ['GC grace comparison truncated to whole seconds', 'equal-version overwrite in set_versioned_value (re-marks the deletion instant via catch-up)'], 'C07': ["SYN-ACK budget computed before the digest's heartbeats are reported (digest grows)", 'try_add_kv skips a key-value longer than u16::MAX and continues'], 'C08': ['8 MiB cap on the decompressed stream', 'decoder requires the zstd frame content size'], 'C09': ['foreign cluster id sliced at byte 128 for logging', 'UDP receive treats a 65,507-byte datagram as an error'], 'C10': ['catch-up call reports a heartbeat to the failure detector', 'phi_threshold clamped to >= 1.0 in the constructor'], 'C11': ['catch-up call reports a heartbeat', 'interval == max_interval no longer accepted as a sample'], 'C12': ["scheduled-for-deletion members still sent in deltas when the peer's digest lists them", 'self-removal guard compares node_id only (old generation of the local node never removed)'], 'C13': ['catch-up refreshes the published snapshot in place ignoring the predicate', 'previous_live_nodes keyed by node_id instead of ChitchatId'], 'C14': ['apply_delta `break` on unknown member', "process_delta drops the self-related part of a delta that would reset the node's own state"], 'C15': ['reset_node rebuilds the state with an empty listener set', 'ListenerHandle::drop uses try_write'], 'C16': ['UDP send buffer not cleared after a failed send (stale SYN-ACK sent instead of BadCluster)', 'cluster id separators normalised at construction'], 'C17': ['one failing send aborts the rest of the gossip round', 'scheduled-for-deletion peers removed from the dead candidates'], 'C18': ['previous key set built from visible keys only (stale tombstones survive)', 'supplied tombstones at or below the supplied watermark skipped'], 'C19': ['UDP send buffer cleared only after a successful send', 'state lock held across the reply send (guard temporary in `if let`)'], 'C20': ['early `return false` in apply_delta on an unknown member', "'max_version unchanged means rejected' shortcut skips the reset bookkeeping"]}
import sys
N=sys.argv[1] if len(sys.argv)>1 else '2'
if N!='2':
    for k in TRIED: TRIED[k]=TRIED[k]+R2[k]
tmpl=open('/verif/tools/seed_prompt_template.txt').read()
for pid,p in props.items():
    wt=f'/tmp/seedwork/wt{N}-{pid}'; out=f'/tmp/seedwork/out{N}-{pid}'
    extra='''

ALREADY TRIED — earlier attempts used the following mechanisms; do NOT repeat them or close variants of them, find something in a DIFFERENT place or of a different nature:
'''+'\n'.join('- '+t for t in TRIED[pid])+'''

AIM FOR SUBTLETY — assume the change will be hunted by an automated tester that generates many thousands of random and phased histories of a few dozen steps on 2-5 in-process nodes (random writes/deletes over a small alphabet of short keys and values plus some 20-45 KB values, message loss/duplication/reordering/delay, partitions, clock jumps around the configured grace periods, crashes/restarts, external catch-up calls, tombstone GC at any node), boundary-directed inputs for the codecs and size budgets, a scripted transport for the server loop and a loopback UDP smoke test, and that compares every node's state with a reference after every step. Prefer a change whose trigger such a tester would plausibly NOT reach by chance: a rare coincidence of values, a long or very specific sequence, a configuration corner, a size/encoding corner, a third code path (e.g. the catch-up entry point, the server loop, the watch stream, the snapshot/serde path, the listener API, the UDP transport) rather than the main gossip path, or an effect that is only observable through an API other than the node state. It must still be a genuine violation of the property as stated.
'''
    text=tmpl.format(wt=wt,out=out,pid=pid,title=p['title'],statement=p['statement'],quant=p['quantifier']['text'])
    text=text.replace('DELIVERABLES —', extra+'\nDELIVERABLES —')
    open(f'/tmp/seedwork/prompt{N}-{pid}.txt','w').write(text)
print('ok')
