#!/usr/bin/env python3
"""Regenerates /verif/MANIFEST.json from the table below (claimed checks) and properties.jsonl."""
import json, os
ROOT = os.path.dirname(os.path.dirname(os.path.abspath(__file__)))
props = [json.loads(l) for l in open(os.path.join(ROOT, 'properties.jsonl'))]

# id -> (engine, technique, level text, level note, design ref)
CLAIMED = {}
def claim(pid, engine, technique, text, note, ref):
    CLAIMED[pid] = dict(engine=engine, technique=technique, text=text, note=note, ref=ref)

exec(open(os.path.join(ROOT, 'tools', 'claims.py')).read())

checks = []
for p in props:
    pid = p['id']
    if pid not in CLAIMED:
        continue
    c = CLAIMED[pid]
    checks.append({
        "property_id": pid,
        "quick_cmd": f"./check {pid} --tier quick",
        "thorough_cmd": f"./check {pid} --tier thorough",
        "evidence_file": f"/verif/evidence/{pid}.json",
        "replay_cmd_template": f"./check {pid} --replay {{path}}",
        "engine": c['engine'],
        "level_claimed": {"category": "exploration", "text": c['text'], "design_ref": c['ref']},
        "level_note": c['note'],
        "technique": c['technique'],
    })
not_applicable = [
    {"property_id": p['id'], "reason": "check not built yet in this round (planned, see DESIGN.md section 4); not a limit of the technique"}
    for p in props if p['id'] not in CLAIMED
]
hook_commits = [l.strip() for l in open(os.path.join(ROOT, 'tools', 'hook_commits.txt')) if l.strip()]
manifest = {
    "version": 1,
    "setup_cmd": "cd /verif/harness && RUSTUP_TOOLCHAIN=1.88.0 CARGO_NET_OFFLINE=true cargo build --release --offline && ((for t in wire_decode wire_roundtrip hostile_process; do CARGO_NET_OFFLINE=true cargo +nightly fuzz build --fuzz-dir /verif/fuzz $t || exit 1; done; CARGO_NET_OFFLINE=true cargo +nightly fuzz build -s none --fuzz-dir /verif/fuzz --target-dir /verif/target/fuzz-gen generated) >/dev/null 2>&1 || echo 'note: libFuzzer targets not built (only the coverage-guided campaigns of the thorough tiers use them; their absence is recorded in the evidence)')",
    "hooks": {
        "guard": "cargo feature `verif` of crate chitchat (off by default)",
        "enable": "the harness crate /verif/harness depends on chitchat by path with features = [\"verif\"]; ./check rebuilds it from /repo's working tree on every run",
        "baseline_off_cmd": "cd /repo && RUSTUP_TOOLCHAIN=1.88.0 cargo test --workspace --no-fail-fast --offline",
        "source_commits": hook_commits,
        "add_only": True,
    },
    "engines": [
        {"name": "vcheck", "path": "/verif/harness", "serves_properties": sorted(CLAIMED.keys()),
         "kind_free_text": "Rust binary: sharded proptest runners + exhaustive small-scope enumerators over real chitchat nodes on a paused tokio clock, independent wire codec, reference models; shrunk failures become JSON replay files"},
        {"name": "libfuzzer-targets", "path": "/verif/fuzz", "serves_properties": ["C01","C02","C03","C04","C05","C06","C08","C09","C10","C11","C12","C13","C14","C15","C16","C18","C19","C20"],
         "kind_free_text": "cargo-fuzz crate: wire_decode (differential decoder), wire_roundtrip (structured), hostile_process (datagram sequences on a fresh node) for C08/C09, and `generated` (engine E10: libFuzzer mutates the choice bytes of the harness's own proptest strategies through a pass-through RNG, oracle = the sub-check's own exec function; needs /verif/vendor/proptest) for the thorough tiers of the others; oracles live in the harness crate so corpus files and crash artifacts replay in-process"},
    ],
    "checks": checks,
    "not_applicable": not_applicable,
    "notes": "Exit codes: 0 held, 1 VIOLATION line printed, 2 inconclusive (build failure / harness error). VERIF_SEED selects the PRNG stream (default 1). Known findings: /verif/known_findings.json.",
}
json.dump(manifest, open(os.path.join(ROOT, 'MANIFEST.json'), 'w'), indent=1)
print("claimed:", sorted(CLAIMED.keys()), "unclaimed:", [n['property_id'] for n in not_applicable])
