#!/usr/bin/env python3
"""Sensitivity experiments: applies deliberate breakages (one at a time) to a scratch copy of
/repo, rebuilds a scratch copy of the harness against it and runs the listed checks.
Everything lives under /tmp/sens and is removed at the end. Usage: sens.py [name-filter]"""
import os, shutil, subprocess, sys, json, time
ROOT='/tmp/sens'
REPO=f'{ROOT}/repo'; HARN=f'{ROOT}/harness'; OUT=f'{ROOT}/out'
def sh(cmd, **kw): return subprocess.run(cmd, shell=True, capture_output=True, text=True, **kw)
def setup():
    shutil.rmtree(ROOT, ignore_errors=True); os.makedirs(OUT)
    sh(f'git -C /repo worktree prune; git clone -q /repo {REPO}')
    shutil.copytree('/verif/harness', HARN, ignore=shutil.ignore_patterns('target'))
    t=open(f'{HARN}/Cargo.toml').read().replace('/repo/chitchat', f'{REPO}/chitchat'); open(f'{HARN}/Cargo.toml','w').write(t)
    c=open(f'{HARN}/.cargo/config.toml').read().replace('/verif/target', f'{ROOT}/target'); open(f'{HARN}/.cargo/config.toml','w').write(c)
MUTS=[]
def mut(name, file, old, new, props, count=1):
    MUTS.append(dict(name=name,file=file,old=old,new=new,props=props,count=count))
exec(open('/verif/tools/sens_mutations.py').read())
def run():
    flt=sys.argv[1] if len(sys.argv)>1 else ''
    setup()
    env=dict(os.environ, RUSTUP_TOOLCHAIN='1.88.0', CARGO_NET_OFFLINE='true', VERIF_OUT_DIR=OUT)
    results=[]
    # baseline build
    r=sh(f'cd {HARN} && cargo build --release --offline', env=env)
    assert r.returncode==0, r.stderr[-2000:]
    for m in MUTS:
        if flt and flt not in m['name']: continue
        path=f"{REPO}/{m['file']}"
        src=open(path).read()
        if src.count(m['old'])<1:
            results.append((m['name'],'PATTERN-NOT-FOUND',{})); print(results[-1], flush=True); continue
        open(path,'w').write(src.replace(m['old'],m['new'],m['count']))
        r=sh(f'cd {HARN} && cargo build --release --offline', env=env)
        res={}
        if r.returncode!=0:
            res={'build':'FAILED: '+r.stderr[-300:]}
        else:
            for p in m['props']:
                t=time.time()
                rr=sh(f'{ROOT}/target/release/vcheck {p} --tier quick', env=env)
                sig=[l for l in rr.stdout.splitlines() if l.startswith('violation detail')]
                res[p]=(rr.returncode, round(time.time()-t,1), sig[0][:160] if sig else '')
        open(path,'w').write(src)
        results.append((m['name'],'ok',res)); print(json.dumps(results[-1]), flush=True)
    json.dump(results, open('/tmp/sens_results.json','w'), indent=1)
    shutil.rmtree(ROOT, ignore_errors=True)
run()
