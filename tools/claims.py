claim("C06", "kv",
      "model-based testing: exhaustive + random op sequences vs reference versioned map",
      "Every sequence of set/set-with-TTL/delete/delete-after-TTL/clock advance/GC up to length 5 (quick) or 6 (thorough) over a 16-op alphabet is enumerated exhaustively, random sequences to length 40 and a two-node replica variant are sampled; after every op all public reads are compared with a reference versioned map. Exploration: complete inside the stated small scope, sampled beyond it.",
      "Trusts the paused tokio clock as the time source and the reference model written from the property statement; alphabets of 6 keys / 3 values.",
      "DESIGN.md 4/C06")
claim("C15", "listen",
      "exhaustive key enumeration x generated subscription sets and event histories, multiset oracle on callback log",
      "All 85 keys of length <= 3 over {a,b,é,😀} are written under thousands of generated subscription sets, and random histories mix local writes, deletes, gossip to a replica, stale re-deliveries, owner GC (resets), handle drops and forever(); the callback log is compared per event with the expected multiset. Exploration with an exhaustive key scope.",
      "Expected replicated notifications are derived from the replica's copy before/after each delivery (state.rs), independent of the listener code.",
      "DESIGN.md 4/C15")
