claim("C06", "kv",
      "model-based testing: exhaustive + random op sequences vs reference versioned map",
      "Every sequence of set/set-with-TTL/delete/delete-after-TTL/clock advance/GC up to length 5 (quick) or 6 (thorough) over a 16-op alphabet is enumerated exhaustively, random sequences to length 40 and a two-node replica variant are sampled; after every op all public reads are compared with a reference versioned map. Exploration: complete inside the stated small scope, sampled beyond it.",
      "Trusts the paused tokio clock as the time source and the reference model written from the property statement; alphabets of 6 keys / 3 values.",
      "DESIGN.md 4/C06")
claim("C15", "listen",
      "exhaustive key enumeration x generated subscription sets and event histories, multiset oracle on callback log",
      "All 85 keys of length <= 3 over {a,b,é,😀} are written under thousands of generated subscription sets, and random histories mix local writes, deletes, gossip to a replica, stale re-deliveries, owner GC (resets), handle drops and forever(); the callback log is compared per event with the expected multiset. Exploration with an exhaustive key scope.",
      "Expected replicated notifications are derived from the replica's copy before/after each delivery (state.rs), independent of the listener code.",
      "DESIGN.md 4/C15")
claim("C17", "select",
      "exhaustive small-scope enumeration x scripted RNGs, validity-predicate oracle",
      "All 54,264 multiset structures of <= 6 addresses over the 15 membership combinations of {peer, live, dead, seed} are enumerated under constant/extreme/counter/alternating and seeded generator scripts; each result is checked against the selection contract (<= 3 distinct targets from the right pool, picks inside their sets, seed reached when isolated, dead probed when outnumbering). Exhaustive in the stated scope for the scripted generators.",
      "Random-generator outputs are sampled (scripts), not enumerated; a watchdog turns a non-terminating sampler into exit 2.",
      "DESIGN.md 4/C17")
claim("C07", "mtu",
      "property-based generation of (state, digest, budget) + boundary-directed search; independent decoder + exactness oracle against sender state",
      "Sender states are built on a real node (own namespace through the API, up to 40 other members through honest-form messages), peer digests are generated relative to them, and every SYN-ACK/ACK (and facade deltas under budgets 100..65,507) is measured, decoded by an independent decoder and compared entry by entry with the sender's copies; a binary search sizes the state so the reply lands on the 65,507-byte limit and sweeps it byte by byte. Exploration.",
      "Content classes are deterministic generators (constant, hex, printable, max-entropy UTF-8); zstd is trusted as a codec; strings <= 65,535 bytes.",
      "DESIGN.md 4/C07")
