claim("C06", "kv",
      "model-based testing: exhaustive + random op sequences vs reference versioned map",
      "Every sequence of set/set-with-TTL/delete/delete-after-TTL/clock advance/GC up to length 5 (quick) or 6 (thorough) over a 16-op alphabet is enumerated exhaustively, random sequences to length 40 and a two-node replica variant are sampled; after every op all public reads are compared with a reference versioned map. Exploration: complete inside the stated small scope, sampled beyond it.",
      "Trusts the paused tokio clock as the time source and the reference model written from the property statement; alphabets of 6 keys / 3 values.",
      "DESIGN.md 4/C06")
claim("C15", "listen",
      "exhaustive key enumeration x generated subscription sets and event histories, multiset oracle on callback log",
      "All 85 keys of length <= 3 over {a,b,é,😀} are written under thousands of generated subscription sets, and random histories mix local writes, deletes, gossip to a replica, stale re-deliveries, owner GC (resets), handle drops and forever(); the callback log is compared per event with the expected multiset. Exploration with an exhaustive key scope.",
      "Expected replicated notifications are derived from the replica's copy before/after each delivery (state.rs), independent of the listener code.",
      "DESIGN.md 4/C15")
claim("C17", "select",
      "exhaustive small-scope enumeration x scripted RNGs, validity-predicate oracle",
      "All 54,264 multiset structures of <= 6 addresses over the 15 membership combinations of {peer, live, dead, seed} are enumerated under constant/extreme/counter/alternating and seeded generator scripts; each result is checked against the selection contract (<= 3 distinct targets from the right pool, picks inside their sets, seed reached when isolated, dead probed when outnumbering). Exhaustive in the stated scope for the scripted generators.",
      "Random-generator outputs are sampled (scripts), not enumerated; a watchdog turns a non-terminating sampler into exit 2.",
      "DESIGN.md 4/C17")
claim("C07", "mtu",
      "property-based generation of (state, digest, budget) + boundary-directed search; independent decoder + exactness oracle against sender state",
      "Sender states are built on a real node (own namespace through the API, up to 40 other members through honest-form messages), peer digests are generated relative to them, and every SYN-ACK/ACK (and facade deltas under budgets 100..65,507) is measured, decoded by an independent decoder and compared entry by entry with the sender's copies; a binary search sizes the state so the reply lands on the 65,507-byte limit and sweeps it byte by byte. Exploration.",
      "Content classes are deterministic generators (constant, hex, printable, max-entropy UTF-8); zstd is trusted as a codec; strings <= 65,535 bytes.",
      "DESIGN.md 4/C07")
SIM_NOTE = "Real Chitchat nodes, real serialized datagrams carried by the harness, paused tokio clock; the owner's local API is trusted to record the ledger; single incarnation per ChitchatId; the equal-staleness shuffle is seeded from the case."
claim("C01", "sim",
      "stateful property-based testing: generated fault prefix + harness-owned fair schedule; progress and bounded-convergence oracles",
      "A generated prefix (writes, loss, duplication, reordering, partitions, key GC, clock advances, late joins, MTU-truncating values) is followed by a fair phase over a generated connected topology in which every connected ordered pair performs a loss-free handshake per round; oracle (a): a complete handshake where one side holds newer data strictly advances a lagging copy (side conditions: same member sets, nobody scheduled for deletion), oracle (b): all copies reach the owners' max versions within 10 + n*(entries+members) rounds. Liveness is decided as bounded convergence; exploration.",
      SIM_NOTE + " Crashed owners are excluded (their last writes may be unrecoverable by design).",
      "DESIGN.md 4/C01")
claim("C02", "sim",
      "stateful property-based testing against an owner-write ledger (invariant after every step), with entry-level exclusion of the known finding KF-1",
      "Generated histories on 2..5 nodes with every fault of the step relation; after every step every copy on the touched node is compared with the ledger of the owner's writes: each key whose latest write is at or below the copy's max version must be held exactly (or be absent iff deleted/TTL at or below the copy's watermark). Mismatches whose provenance is exactly KF-1 are counted and reported as KNOWN-FINDING; anything else is a violation. Exploration.",
      SIM_NOTE,
      "DESIGN.md 4/C02, 5/KF-1")
claim("C03", "sim",
      "stateful property-based testing against an owner-write ledger (invariant after every step)",
      "Same step relation as C02; after every step every entry of every copy on the touched node must equal the owner's write with that version (key, value, status), no copy's max version or recorded heartbeat may exceed the owner's, and no member that never existed may appear. Exploration.",
      SIM_NOTE,
      "DESIGN.md 4/C03")
claim("C04", "sim+pairs+kv",
      "stateful PBT (frontier monitors, panic capture) + small-scope enumeration of (copy, delta) pairs + model-based local API sequences",
      "(a) cluster histories: per copy the (watermark, max version) pair never decreases, key versions never decrease without a strict watermark rise, and no honest message makes a node panic; (b) every (copy, honest-form delta) pair of a small scope (values 0..6), delivered once and twice, same monitors; (c) local API sequences vs the reference model for version allocation (exhaustive to length 5/6). Exploration with exhaustive small scopes.",
      SIM_NOTE,
      "DESIGN.md 4/C04")
claim("C05", "sim",
      "stateful property-based testing: before/after snapshot of the receiver's own namespace around every processed message",
      "Same step relation as C02; around every delivery the receiver's own entries, max version and watermark must be identical and its heartbeat may only step by one; after every step no copy is ahead of its owner (max version, heartbeat). Exploration.",
      SIM_NOTE,
      "DESIGN.md 4/C05")
claim("C08", "wirecheck",
      "round-trip and differential testing against an independent encoder/decoder, both directions",
      "Direction 1: generated model messages are encoded by an independent implementation of the layout (canonical, raw, compressed, mixed and tiny blocks) and must decode to the expected message, consume all bytes, announce the right length and (canonical mode) re-encode to identical bytes. Direction 2: messages emitted by real nodes in generated states must round-trip through the real codec, be decoded identically by the independent decoder, and be reproduced byte-for-byte by the independent canonical encoder. Exploration (plus libFuzzer targets in the thorough tier when available).",
      "zstd trusted as a codec; the independent codec was written from the layout in message.rs/digest.rs/delta.rs/serialize.rs and shares no code with it.",
      "DESIGN.md 4/C08")
claim("C12", "sim",
      "stateful property-based testing with membership monitors over decoded outgoing messages",
      "Membership-heavy histories (crashes, restarts under a new generation, partitions, clocks at grace/2 and grace +- delta, skewed evaluations): live/dead disjoint, self live and present, exact partition after each evaluation, nothing about a member dead for more than grace/2 in any outgoing digest or delta, removal at grace, re-creation only by a strictly higher heartbeat, no liveness before two increasing heartbeats. Exploration.",
      SIM_NOTE + " Death times are observed at evaluations (the only place the dead set changes); a 2^-20 relative band plus 1 ms around grace/2 is not asserted.",
      "DESIGN.md 4/C12")
claim("C13", "sim",
      "stateful property-based testing: watch-channel value vs recomputed expectation after every evaluation",
      "Membership histories with owner writes, TTL deletes and key GC, with and without an extra liveness predicate: after every evaluation the channel must list exactly the live members satisfying the predicate with current max versions, and a change of the live set or of a live member's max version must publish. Exploration.",
      SIM_NOTE + " Predicates range over visible key-values only.",
      "DESIGN.md 4/C13")
claim("C14", "pairs",
      "exhaustive small-scope enumeration of (sender copy, receiver copy, budget) + random larger scopes; spec-level oracle and reference apply",
      "All 64 x 65 frontier pairs with watermarks/versions 0..7 (incl. watermark > max and unknown member), sender entry sets of <= 3 versions with every status, <= 1 receiver entry, every truncation point; the sender's reply to the receiver's own digest is checked against the documented rule and applied to the unchanged receiver, which must strictly advance and equal a reference apply. Quick tier samples 1/40 of the inner product, thorough enumerates it all. Exploration / exhaustive in scope.",
      "Copies are installed through honest-form messages and verified through public getters before use.",
      "DESIGN.md 4/C14")
claim("C16", "sim",
      "stateful property-based testing on two clusters sharing the network",
      "Two clusters (ids from a set with empty, prefix-related and case-variant strings) of 1..3 nodes whose SYNs cross; a foreign SYN must yield exactly BadCluster and leave membership, key-values and live/dead/scheduled sets untouched, BadCluster changes nothing at the initiator, and after every step every member known to a node belongs to its own cluster. Exploration.",
      SIM_NOTE + " Each node has its own address.",
      "DESIGN.md 4/C16")
claim("C20", "sim+pairs",
      "stateful PBT with a counting callback + (copies, multi-member delta) pair generation; oracle = watermark rise and independent reset prediction",
      "Around every processed message the callback count must be 1 iff some copy's watermark rose, and that must match the reset rule evaluated on the independently decoded delta; histories supply stale duplicates and third-party resets, pairs supply several resets in one message and members created by the same message. Exploration.",
      SIM_NOTE,
      "DESIGN.md 4/C20")
claim("C10", "fd",
      "property-based generation of (configuration, arrival history, evaluation times) on a virtual clock; bound oracle with explicit float tolerance",
      "Heartbeats reach a real node through SYN digests at generated virtual times (bursts, steady, jittered, beyond max_interval, long silences, up to 2,000 arrivals), with evaluations placed at random and exactly around last_fresh + phi x max(max_interval, initial_interval); any evaluation later than that deadline must classify the member dead, and live requires two fresh observations within max_interval since the last dead evaluation. Exploration.",
      "Paused tokio clock; tolerance T*1e-9 + 1 us around the deadline; configuration ranges of the property.",
      "DESIGN.md 4/C10")
claim("C11", "fd",
      "metamorphic twin (stale digests must not matter) + accuracy bound on generated steady schedules",
      "Two identical observers get the same fresh schedule, the twin also gets equal/lower/relayed heartbeats at generated times (incl. at the death deadline): classification and stored heartbeat must agree at every evaluation, and nobody is live before two increasing heartbeats. Accuracy: for gaps in [a,b] <= max_interval and phi = b/min(a,initial) (1+margin), every evaluation inside a gap from the third observation on must say live. Exploration.",
      "Paused tokio clock; relative tolerance 1e-9 on the accuracy bound.",
      "DESIGN.md 4/C11")
claim("C18", "catchup",
      "property-based generation of (existing copy, supplied state) with a twin node; validity-predicate oracle",
      "The catch-up entry point is called on real nodes holding an absent / empty / arbitrary (incl. mid-reset) / removed-and-remembered copy with supplied states that are consistent or not; afterwards: no panic, frontier not lowered, copy unchanged or exactly the supplied key set merged by version, removed members stay absent, liveness at the next evaluation equals a twin's that did not receive the call, and follow-up honest gossip neither panics nor regresses. Exploration.",
      "Versions 0..12, <= 4 keys; follow-up gossip only after well-formed supplied states.",
      "DESIGN.md 4/C18")
claim("C09", "hostile",
      "structure-aware fuzzing with proptest generators (random, mutated, semantically arbitrary op streams) + libFuzzer targets; no-panic and invariant oracle",
      "A victim node in a generated reachable state receives sequences of up to 20 datagrams (random bytes, messages from the independent encoder with syntactically valid but semantically arbitrary op streams and non-canonical blocks, and bit-flipped / truncated / spliced variants) interleaved with evaluations; decoding and processing must not panic, replies must serialize, per-copy frontiers stay monotone, live and dead stay disjoint with self live, and the node can still run a round afterwards. Exploration.",
      "Id universe of 48 short ids (the statement's digest-fits precondition); memory/time exhaustion by decompression bombs is out of the statement and not generated.",
      "DESIGN.md 4/C09")
claim("C19", "srv",
      "fault-script generation against a scripted Transport/Socket on a paused runtime (schedule owned by the harness) + loopback UDP smoke",
      "Generated scripts of send outcomes, arriving messages, delays, user lock acquisitions, fatal recv errors, recv panics and shutdown requests drive the real spawn_chitchat server; without a fatal event the loop must keep heartbeating, keep emitting SYNs, answer a probe SYN and let with_chitchat return; a fatal error or panic must surface through the termination watcher; shutdown must always complete. A stall is detected deterministically as a virtual-time timeout. Exploration.",
      "Single-threaded paused runtime (no parallel interleavings); the UDP smoke uses real time and its timeouts are inconclusive.",
      "DESIGN.md 4/C19")

# Additions made while strengthening the checks against seeded breakages (appended to the texts above).
EXTRA = {
 "C01": " Also: crashes are admitted (convergence required for running owners), directed deep / phased / member-phased generators, and a max-size-value sub-check (a key-value that exactly fits the datagram with the digest must be delivered by one handshake, whichever side initiates). A bulk sub-check: a joiner facing 500-6,000 small compressible entries (up to > 256 KiB decompressed per datagram), every message through the real codec; each handshake must advance it. The fair phase also requires the copies of advertised members whose owner is gone (crashed, or a former incarnation of a restarted node) to converge between direct neighbours.",
 "C02": " Histories include held SYN-ACKs and external catch-up calls fed with a peer's copy; besides uniform op mixes, directed deep / phased / member-phased generators reach mid-reset copies meeting delayed replies and stale peers. Catch-up calls may also go through the serde snapshot of the peer's copy.",
 "C03": " Histories include held SYN-ACKs and external catch-up calls; slots 3 and 4 advertise IPv4-mapped and loopback IPv6 addresses. Catch-up calls may also go through the serde snapshot of the peer's copy (what an application would ship). Values include the empty string (also under a TTL).",
 "C04": " Histories include external catch-up calls followed by key GC (sub-watermark tombstones). After the deliveries of every (copy, delta) case the receiver performs local writes (set, delete, delete-after-TTL): each must get exactly the previous max version + 1, also on an own state that a delta about the receiver itself left with a watermark above its max version.",
 "C05": " Also: a catch-up call fed with a peer's honest copy of the node's own namespace must change nothing. A sub-check feeds a node stale, header-only and truncated deltas about its own namespace: its copy, watermark and later version allocation must be unaffected.",
 "C06": " Also: grace periods with a fractional part, below one second, 1 ns and 0; a replica catch-up op (entries already held at the same version keep their deletion instant). Inside cluster histories a monitor checks the replica-side GC of tombstones (marked entries older than the grace period are dropped by a GC pass, younger ones kept). Random sequences also use order-boundary keys (U+10FFFF alone / followed by more / after a prefix, U+FFFF, U+0000). The replica variant also ships the owner's state as a serde (JSON) snapshot (statuses survive, deletion instants restart).",
 "C07": " Also: members unknown to the sender in the peer's SYN (own digest grows before answering), a trailing member offered as header + explicit max version, key-values that can never fit; the oracle is exactly the stated interval condition relative to the announced start. A many-keys sub-check (up to 100,000 stale key-values of one member; the newest in version order must be the ones cut) and sub-watermark tombstones brought in by catch-up. A huge-digest sub-check: 1-40 members with node ids of up to 65 KB so that the sender's own digest leaves 100-1,200 bytes for the delta. The loopback UDP smoke (every emitted datagram is exactly one message, also after a failed send) also runs for C07.",
 "C08": " Also: ids differing only by address, special IPv4/IPv6 forms, multi-megabyte compressible op streams in both directions, blocks compressed with the streaming zstd API (no declared content size); byte equality with the independent canonical encoder is recorded, not required. The decoder is also handed damaged variants of a message right before the intact bytes on the same thread (it must not depend on what it decoded before), and an independent-encoder mode that flushes a zero-length raw block before the end tag. A death of the check process (abort, not panic) is attributed to the in-flight case by replaying it alone. Ids that differ only by node id (same generation and address); the loopback UDP smoke incl. a direct receive probe of the real transport (the 4-byte BadCluster must come out of recv) also runs for C08.",
 "C09": " Also: foreign cluster ids of any shape (long, non-ASCII, multi-byte at any offset) and the loopback UDP smoke (garbage, truncated, maximum-size and empty datagrams, failed sends). The victim has key listeners and hostile deltas carry non-ASCII keys. A death of the check process (abort on an attacker-chosen allocation size, signal) is attributed to the in-flight case by replaying it alone in a fresh process and reported as a violation; a message processed while another thread is inside a listener-handle drop must not panic.",
 "C10": " Histories also contain stale digests and catch-up calls for the observed member. Histories also contain copy resets (a delta that resets the member's key-values) between arrivals: a reset must not make a stale heartbeat count as fresh. The observer may be configured with an application liveness predicate the member never satisfies; heartbeat counters may start in the upper half of u64. A server-level sub-check (real server, scripted transport, per-destination send failures, predicate): after >= 5 rounds every heartbeating peer is live and every silent one is in the dead set.",
 "C11": " The twin also receives catch-up calls; accuracy schedules contain outages and boundary-valued gaps (exactly max_interval). Thresholds that are exactly tight (phi == threshold built with exact binary arithmetic) and copy-reset events. Heartbeat counters starting at 2^63-3, 2^63+2, u64::MAX-70,000 and tiny stale values; observer optionally with an application liveness predicate. The accuracy observer has a finite dead-node grace period and some outages last longer than it, with no evaluation until three heartbeats are back: the member must then be live, not collected.",
 "C12": " Also: phased membership histories (skewed detection, restart-and-gossip, catch-ups) and a removed-member-memory sub-check with up to 500 members and two removal waves. The membership monitor also applies the time-aware dead-to-live rule (live implies two fresh observations at most max_interval apart, the later one after the last evaluation that found the member dead). Also: a member whose sampling window holds an interval and whose last fresh heartbeat is recent (half of phi x min(smallest gap, initial interval)) must be live after the evaluation; the heartbeat remembered at removal must not be below the highest value the node has been told.",
 "C13": " Also: the first value of live_nodes_watch_stream() must equal the watcher's; restart-and-gossip sequences (both incarnations live at once) and catch-up calls. Predicates include ones that hold on a state without key-values (negated key presence, constant true). Nodes may be configured with a (never answering) seed, and in a third of the cases the harness keeps no receiver between evaluations (a late subscriber must see the evaluated membership).",
 "C14": " Also: the member may be the receiver itself (node restarted under the same id), and the sender may hold another member that the receiver has removed and remembers; a semantic end-state check (receiver holds every sender entry in the newly covered interval). Variant: the receiver has evaluated liveness, the member is dead there but not yet scheduled for deletion. A pair variant in which the receiver has scheduled the member for deletion (its digest omits it) while still holding the copy: the from-0 delta computed from that digest must be applied like any other.",
 "C15": " Also: catch-up events (keys already held at the same version must not notify) and a harness-scheduled two-thread sub-check (a handle dropped while another thread is dispatching must be gone once the drop returns). A local write or gossip message dispatched while another thread is inside a handle drop (slow destructor of the dropped closure) must neither panic nor lose the event for the other subscriptions. Subscriptions may use zero-sized callbacks (function items recording into a thread-local log).",
 "C16": " Cluster ids incl. whitespace-padded, separator variants, long and multi-byte ones; plus the loopback UDP smoke with a foreign-cluster probe after a failed send. The UDP smoke also runs a second real server of another cluster whose id is the first id followed by 65,536 bytes (16-bit length prefix), seeded at the first: neither may learn the other. The id dictionary contains one pair colliding under std DefaultHasher (from a seeded change; not reachable by generation). A foreign-syn-runs sub-check: own ids of 0..1,024 bytes related to the foreign id (own+suffix, prefix, case variant, one character changed) and runs of 1..1,030 foreign SYNs at one node, each of which must be rejected and change nothing.",
 "C17": " Also a server-level sub-check: the real server on a scripted transport (peers introduced by digests, own address among the seeds, per-destination send failures, 20 s dead-node grace): per round at most 5 SYNs, none to itself or to unknown addresses, a seed reached when isolated, a dead peer probed when outnumbering (also once scheduled for deletion). The server-level sub-check also draws an application liveness predicate no peer satisfies (once a live peer is known at most one dead peer per round) and a host-name seed next to literal ones with 172 virtual seconds (the literal seed must still be contacted after the first DNS refresh). The server-level sub-check also uses a wildcard listen address (0.0.0.0:port, advertised 127.0.0.1:port), a seed that is a dead peer, and a case-seeded peer-selection generator (hook verif_set_server_seed); because the pools are hash-randomised sets a failing case is re-evaluated up to 40 times.",
 "C18": " Also: members known only through an earlier catch-up and then removed; key GC after the call must not lower the frontier. A second call per case, supplied versions at u64::MAX / u64::MAX-1, and supplied entries reusing the value text already held. live_nodes() and the members listed by the watch channel are compared right before and right after each call (no evaluation in between).",
 "C19": " Also: the user holding the lock for a while, gated (back-pressured) sends during which the user must get the lock, per-destination failures; the UDP smoke sends empty / maximum-size datagrams and failing sends and requires every emitted datagram to be exactly one message. Flood events (sustained inbound traffic on a slow send path: ticks and shutdown still served) and gossip-then-shutdown; the UDP smoke probes with a valid 65,507-byte message. Scripts include bursts of up to 1,000 queued gossip requests followed by a shutdown; the server-level targets sub-check (per-destination send failures must not truncate a round) also runs for C19.",
 "C20": " Pair-level cases include deltas about the receiver itself (restart under the same id).",
}
for k, extra in EXTRA.items():
    CLAIMED[k]['text'] += extra
# Engine E10 (DESIGN.md 2.3): coverage-guided campaigns in the thorough tier.
for k in ["C01","C02","C03","C04","C05","C06","C10","C11","C12","C13","C14","C15","C16","C18","C19","C20"]:
    CLAIMED[k]['text'] += " Thorough tier also: coverage-guided libFuzzer campaigns (16 jobs, fixed number of runs) that mutate the choice bytes of the same proptest strategies and use the same oracle; crashes are re-generated in-process, shrunk and written as ordinary replays."
