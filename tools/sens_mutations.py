S='chitchat/src/state.rs'; L='chitchat/src/lib.rs'; D='chitchat/src/delta.rs'; Z='chitchat/src/serialize.rs'
F='chitchat/src/failure_detector.rs'; LI='chitchat/src/listener.rs'; SV='chitchat/src/server.rs'; DG='chitchat/src/digest.rs'; T='chitchat/src/types.rs'
# C01 / C14
mut('admission-lt-gc', S, 'node_delta.last_gc_version <= self.last_gc_version ||', 'node_delta.last_gc_version < self.last_gc_version ||', ['C14','C01'])
mut('admission-lt-max', S, 'node_delta.last_gc_version <= self.max_version();', 'node_delta.last_gc_version < self.max_version();', ['C14','C01'])
mut('reset-or', S, 'let should_reset = digest_last_gc_version < node_state.last_gc_version\n                && digest_max_version', 'let should_reset = digest_last_gc_version < node_state.last_gc_version\n                || digest_max_version', ['C14','C02','C20'])
mut('drop-set-max-version', S, 'let _ = delta_serializer.try_set_max_version(stale_node.node_state.max_version);', 'let _ = stale_node.node_state.max_version;', ['C14','C01','C07'])
# C02
mut('no-gced-tombstone-skip', S, 'if key_value_mutation.version <= self.last_gc_version {\n                    continue;\n                }', 'if key_value_mutation.version < 0 {\n                    continue;\n                }', ['C02','C14','C06'])
mut('reset-keeps-entries', S, '*self = NodeState::new(self.chitchat_id.clone(), self.listeners.clone());\n        self.max_version = 0;', 'self.max_version = 0;', ['C02','C14','C04'])
mut('gc-watermark-to-max', S, 'self.last_gc_version = max_deleted_version;', 'self.last_gc_version = if max_deleted_version > self.last_gc_version { self.max_version } else { max_deleted_version };', ['C06','C02'])
mut('stale-unsorted', S, '.sorted_unstable_by_key(|(_, versioned_value)| versioned_value.version)', '.sorted_unstable_by_key(|(_, versioned_value)| std::cmp::Reverse(versioned_value.version))', ['C07','C14','C02'])
# C03
mut('setmax-sends-gc', S, 'let _ = delta_serializer.try_set_max_version(stale_node.node_state.max_version);', 'let _ = delta_serializer.try_set_max_version(stale_node.node_state.max_version.max(stale_node.node_state.last_gc_version));', ['C03','C14','C07'])
mut('kv-swap-key-value-selfconsistent', T, 'Serializable::serialize(self.key, buf);\n        Serializable::serialize(self.value, buf);', 'Serializable::serialize(self.value, buf);\n        Serializable::serialize(self.key, buf);', ['C08','C03'])
# C04 / C05
mut('accept-known-version', S, 'if key_value_mutation.version <= current_max_version {', 'if key_value_mutation.version < current_max_version {', ['C04','C14','C15'])
mut('offer-when-equal', S, 'if node_state.max_version <= digest_max_version {', 'if node_state.max_version < digest_max_version {', ['C14','C07','C05'])
# C06
mut('gc-grace-le', S, 'if now < deleted_start_instant + grace_period {', 'if now <= deleted_start_instant + grace_period {', ['C06'])
mut('gc-ignores-ttl', T, 'DeletionStatus::Deleted(time_of_deletion)\n            | DeletionStatus::DeleteAfterTtl(time_of_deletion) => Some(*time_of_deletion),', 'DeletionStatus::Deleted(time_of_deletion) => Some(*time_of_deletion),\n            DeletionStatus::DeleteAfterTtl(_) => None,', ['C06','C13'])
mut('iter-prefix-excluded', S, 'let range = (Bound::Included(prefix), Bound::Unbounded);', 'let range = (Bound::Excluded(prefix), Bound::Unbounded);', ['C06'])
# C07 / C08
mut('budget-plus-one', L, '- message::MESSAGE_HEADER_LEN\n                    - self_digest.serialized_len();', '- message::MESSAGE_HEADER_LEN + 1\n                    - self_digest.serialized_len();', ['C07'])
mut('block-meta-2', Z, 'const BLOCK_META_LEN: usize = 3;', 'const BLOCK_META_LEN: usize = 2;', ['C07'])
mut('digest-field-swap', DG, 'self.heartbeat.serialize(buf);\n        self.last_gc_version.serialize(buf);', 'self.last_gc_version.serialize(buf);\n        self.heartbeat.serialize(buf);', ['C08'])
mut('delta-len-off-by-one', 'chitchat/src/message.rs', 'ChitchatMessage::Ack { delta } => 1 + delta.serialized_len(),', 'ChitchatMessage::Ack { delta } => 2 + delta.serialized_len(),', ['C08','C07'])
# C09
mut('decoder-no-increasing-check', D, 'current_node_delta.max_version < key_value_mutation.version,', 'current_node_delta.max_version <= key_value_mutation.version || true,', ['C09'])
mut('decoder-no-dup-node-check', D, 'anyhow::ensure!(!self.existing_nodes.contains(&chitchat_id));', '', ['C09','C08'])
# C10 / C11
mut('heartbeat-ge', S, 'if heartbeat_new_value > self.heartbeat {', 'if heartbeat_new_value >= self.heartbeat {', ['C11','C10'])
mut('window-not-cleared', F, 'node_sample.reset();', '', ['C10','C11'])
mut('max-interval-filter-dropped', F, 'if interval <= self.max_interval {', 'if interval <= self.max_interval || true {', ['C10'])
mut('prior-weight-zero', F, 'prior_weight: 5.0f64,', 'prior_weight: 0.0f64,', ['C11'])
# C12 / C13
mut('half-grace-to-grace', F, 'self.config.dead_node_grace_period.div_f32(2.0f32);', 'self.config.dead_node_grace_period.div_f32(1.0f32);', ['C12'])
mut('scheduled-kept-in-digest', S, '.filter(|(chitchat_id, _)| !scheduled_for_deletion.contains(chitchat_id))', '.filter(|(chitchat_id, _)| !scheduled_for_deletion.contains(chitchat_id) || true)', ['C12','C07'])
mut('gc-memory-not-consulted', L, '.map(|last_heartbeat| last_heartbeat < heartbeat)\n            .unwrap_or(true);', '.map(|last_heartbeat| last_heartbeat < heartbeat || true)\n            .unwrap_or(true);', ['C12'])
mut('publish-only-on-set-change', L, '(node_state.last_gc_version(), node_state.max_version()),', '(0, 0),', ['C13'])
# C15
mut('listener-upper-exclusive', LI, 'Bound::Included(key_change_event.key),\n        );', 'Bound::Excluded(key_change_event.key),\n        );', ['C15'])
mut('notify-on-delete', S, 'if !versioned_value_update.is_deleted() {\n            self.listeners.trigger_event(key_change_event);\n        }', 'self.listeners.trigger_event(key_change_event);', ['C15'])
# C16
mut('cluster-check-after-heartbeats', L, 'if cluster_id != self.cluster_id() {', 'self.report_heartbeats_in_digest(&digest);\n                if cluster_id != self.cluster_id() {', ['C16'])
# C17
mut('gossip-count-4', SV, 'const GOSSIP_COUNT: usize = 3;', 'const GOSSIP_COUNT: usize = 4;', ['C17'])
mut('dead-prob-ge', SV, 'if selection_probability > rng.random::<f64>() {', 'if selection_probability / 2.0 > rng.random::<f64>() {', ['C17'])
mut('seed-no-live-shortcut', SV, 'if live_nodes_count == 0 || rng.random::<f64>() <= selection_probability {', 'if rng.random::<f64>() < selection_probability / 2.0 {', ['C17'])
# C18
mut('catchup-gc-overwrite', L, 'if last_gc_version > node_state.last_gc_version() {\n            node_state.set_last_gc_version(last_gc_version);\n        }', 'node_state.set_last_gc_version(last_gc_version);', ['C18'])
mut('catchup-ignores-gc-memory', L, '.last_heartbeat_if_deleted(chitchat_id)\n            .is_none();', '.last_heartbeat_if_deleted(chitchat_id)\n            .is_none() || true;', ['C18'])
mut('catchup-reports-heartbeat', L, 'self.failure_detector\n            .get_or_create_sampling_window(chitchat_id);', 'self.failure_detector.report_heartbeat(chitchat_id);\n        self.failure_detector.report_heartbeat(chitchat_id);', ['C18'])
# C19
mut('send-error-propagates', SV, 'Ok((from_addr, message)) => {\n                        let _ = self.handle_message(from_addr, message).await;', 'Ok((from_addr, message)) => {\n                        self.handle_message(from_addr, message).await?;', ['C19'])
mut('lock-held-across-gossip', SV, '// Drop lock to prevent deadlock in [`UdpSocket::gossip`].\n        drop(chitchat_guard);', 'let _keep = &chitchat_guard;', ['C19'])
mut('fatal-recv-swallowed', SV, 'warn!(err=%err, "fatal UDP recv error, stopping gossip loop");\n                        return Err(err);', 'warn!(err=%err, "fatal UDP recv error, stopping gossip loop");\n                        return Ok(());', ['C19'])
# C20
mut('callback-per-reset', S, 'contains_reset |= delta_status == DeltaStatus::ApplyAfterReset;', 'contains_reset = delta_status == DeltaStatus::ApplyAfterReset;', ['C20'])
mut('callback-on-any-apply', S, 'contains_reset |= delta_status == DeltaStatus::ApplyAfterReset;', 'contains_reset |= delta_status != DeltaStatus::Reject;', ['C20'])
