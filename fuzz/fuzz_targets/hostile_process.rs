#![no_main]
//! Bytes -> up to 20 datagrams -> fresh victim node (C09 oracle in the library; state rebuilt per iteration).
use libfuzzer_sys::fuzz_target;
fuzz_target!(|data: &[u8]| {
    if let Err(f) = chitchat_verif::fuzzers::hostile_process(data) {
        panic!("violation {}: {}", f.signature, f.message);
    }
});
