#![no_main]
//! Choice bytes -> proptest strategy of a property check (selected by VERIF_GEN_TARGET) -> case ->
//! the check's own oracle. See chitchat_verif::gen.
use libfuzzer_sys::fuzz_target;
fuzz_target!(|data: &[u8]| {
    if let Err(f) = chitchat_verif::gen::fuzz_body(data) {
        panic!("violation {}: {}", f.signature, f.message);
    }
});
