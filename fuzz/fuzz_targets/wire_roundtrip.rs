#![no_main]
//! Structured input -> model message -> independent encoder -> real decoder (C08 direction 1).
use libfuzzer_sys::fuzz_target;
fuzz_target!(|data: &[u8]| {
    if let Err(f) = chitchat_verif::fuzzers::wire_roundtrip(data) {
        panic!("violation {}: {}", f.signature, f.message);
    }
});
