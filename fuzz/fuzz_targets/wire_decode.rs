#![no_main]
//! Raw bytes -> real decoder, differential against the independent decoder (oracle in the library).
use libfuzzer_sys::fuzz_target;
fuzz_target!(|data: &[u8]| {
    if let Err(f) = chitchat_verif::fuzzers::wire_decode(data) {
        panic!("violation {}: {}", f.signature, f.message);
    }
});
