//! Library face of the verification harness (shared with the fuzz targets).
pub mod catchup;
pub mod common;
pub mod fd;
pub mod fuzzers;
pub mod hostile;
pub mod kv;
pub mod listen;
pub mod mtu;
pub mod pairs;
pub mod statebuild;
pub mod props;
pub mod select;
pub mod sim;
pub mod srv;
pub mod util;
pub mod wire;
pub mod wirecheck;
