//! Bodies of the libFuzzer targets (so that the same oracles can replay corpus files and crash
//! artifacts in-process, without the fuzzing toolchain), the corpus generator and the driver of
//! the coverage-guided campaigns of the thorough tier.

use std::path::{Path, PathBuf};
use std::process::Command;
use std::time::Duration;

use arbitrary::Unstructured;
use chitchat::verif::verif_describe;
use chitchat::{ChitchatMessage, Deserializable, Serializable};
use proptest::strategy::{Strategy, ValueTree};
use proptest::test_runner::{Config, RngAlgorithm, TestRng, TestRunner};

use crate::common::*;
use crate::hostile::*;
use crate::pairs::{install_copy, CopySpec, EntryS};
use crate::util::*;
use crate::wire::*;
use crate::wirecheck::*;

/// Raw bytes -> real decoder; differential against the independent decoder.
pub fn wire_decode(data: &[u8]) -> Result<(), Failure> {
    if data.len() > MAX_DATAGRAM {
        return Ok(());
    }
    let real = guard(|| {
        let mut buf = data;
        let r = ChitchatMessage::deserialize(&mut buf);
        (r, data.len() - buf.len())
    });
    let (real, consumed) = match real {
        Ok(r) => r,
        Err(p) => return Err(Failure::new(format!("C09/decode-{}", p.signature()), format!("decoder panicked on {} bytes: {}", data.len(), p.describe()))),
    };
    // A digest that repeats an id is not producible by an encoder (ids are map keys): the decoded
    // message then legitimately announces fewer bytes than were consumed.
    let mut dup_digest_ids = false;
    let mine = decode_msg(data).and_then(|d| {
        if let WMsg::Syn { digest, .. } | WMsg::SynAck { digest, .. } = &d.msg {
            let distinct: std::collections::HashSet<&WId> = digest.iter().map(|nd| &nd.id).collect();
            dup_digest_ids = distinct.len() != digest.len();
        }
        normalise_model(&d.msg).map(|n| (n, d.consumed))
    });
    match (real, mine) {
        (Ok(msg), Ok((model, my_consumed))) => {
            let got = normalise_verif(&verif_describe(&msg));
            if got != model {
                return Err(Failure::new("C08/decoders-disagree-content", format!("real {:?} vs independent {:?}", got, model).chars().take(600).collect::<String>()));
            }
            if consumed != my_consumed {
                return Err(Failure::new("C08/decoders-disagree-length", format!("real consumed {consumed}, independent {my_consumed}")));
            }
            if msg.serialized_len() != consumed && !dup_digest_ids {
                return Err(Failure::new("C08/announced-length", format!("decoded message announces {} bytes, consumed {consumed}", msg.serialized_len())));
            }
            Ok(())
        }
        (Err(_), Err(_)) => Ok(()),
        (Ok(msg), Err(e)) => Err(Failure::new("C08/real-accepts-independent-rejects", format!("independent decoder: {e}; real decoded {:?}", verif_describe(&msg)).chars().take(600).collect::<String>())),
        (Err(e), Ok((model, _))) => Err(Failure::new("C08/real-rejects-independent-accepts", format!("real decoder: {e:#}; independent decoded {model:?}").chars().take(600).collect::<String>())),
    }
}

fn arb_case(u: &mut Unstructured) -> arbitrary::Result<WireCase> {
    fn str_spec(u: &mut Unstructured) -> arbitrary::Result<StrSpec> {
        Ok(StrSpec { len_class: u.int_in_range(0..=11)?, content: u.int_in_range(0..=3)?, seed: u.arbitrary()? })
    }
    fn u64s(u: &mut Unstructured) -> arbitrary::Result<(u8, u32)> {
        Ok((u.int_in_range(0..=7)?, u.arbitrary()?))
    }
    fn id_spec(u: &mut Unstructured) -> arbitrary::Result<IdSpec> {
        Ok(IdSpec { node_id: str_spec(u)?, generation: u64s(u)?, ipv6: u.arbitrary()?, ip_seed: u.arbitrary()?, port: u.arbitrary()? })
    }
    let kind = u.int_in_range(0..=3)?;
    let cluster_id = str_spec(u)?;
    let mut digest = Vec::new();
    for _ in 0..u.int_in_range(0..=5)? {
        digest.push((id_spec(u)?, u64s(u)?, u64s(u)?, u64s(u)?));
    }
    let bulk_digest = if u.ratio(1, 8)? { u.int_in_range(0..=400)? } else { 0 };
    let mut deltas = Vec::new();
    for _ in 0..u.int_in_range(0..=4)? {
        let mut kvs = Vec::new();
        for _ in 0..u.int_in_range(0..=6)? {
            kvs.push(KvSpec {
                key: str_spec(u)?,
                val: Val { class: u.int_in_range(1..=4)?, len: u.int_in_range(0..=40_000)?, seed: u.arbitrary()? },
                status: u.int_in_range(0..=2)?,
                gap: if u.ratio(5, 6)? { (1, u.int_in_range(0..=3)?) } else { u64s(u)? },
            });
        }
        let set_max = if u.arbitrary()? { Some(u64s(u)?) } else { None };
        deltas.push(NodeDeltaSpec { id: id_spec(u)?, gc: u64s(u)?, from: u64s(u)?, kvs, set_max });
    }
    let blocking = match u.int_in_range(0..=6)? {
        0..=2 => Blocking::Canonical,
        3 => Blocking::Raw(u.int_in_range(1..=70_000)?),
        4 => Blocking::Compressed(u.int_in_range(1..=70_000)?),
        5 => Blocking::Mixed(u.int_in_range(1..=70_000)?),
        6 => Blocking::RawFlushEmpty(u.int_in_range(1..=64)?),
        _ => Blocking::CompressedStream(u.int_in_range(1..=70_000)?),
    };
    let twin_ids = u.ratio(1, 5)?;
    let twin_by_name = u.ratio(1, 5)?;
    Ok(WireCase { kind, cluster_id, digest, bulk_digest, deltas, blocking, twin_ids, twin_by_name })
}

/// Structured input -> model message -> independent encoder -> real decoder.
pub fn wire_roundtrip(data: &[u8]) -> Result<(), Failure> {
    let mut u = Unstructured::new(data);
    let Ok(c) = arb_case(&mut u) else { return Ok(()) };
    let mut tally = Tally::default();
    exec_model_to_real(&c, &mut tally)
}

pub fn split_datagrams(data: &[u8]) -> (u8, Vec<Vec<u8>>) {
    if data.is_empty() {
        return (0, vec![]);
    }
    let sel = data[0];
    let mut datagrams = Vec::new();
    let mut rest = &data[1..];
    while rest.len() >= 2 && datagrams.len() < 20 {
        let len = u16::from_le_bytes([rest[0], rest[1]]) as usize;
        rest = &rest[2..];
        let take = len.min(rest.len());
        datagrams.push(rest[..take].to_vec());
        rest = &rest[take..];
    }
    (sel, datagrams)
}

/// Bytes -> up to 20 length-prefixed datagrams -> fresh victim in a small reachable state.
pub fn hostile_process(data: &[u8]) -> Result<(), Failure> {
    if data.len() < 3 {
        return Ok(());
    }
    let rt = tokio::runtime::Builder::new_current_thread().enable_time().start_paused(true).build().unwrap();
    rt.block_on(async {
        let id = receiver_id();
        let fd = FdCfg { dead_grace_ms: 60_000, ..FdCfg::default() };
        let mut victim = build_node(&id, "c", Duration::from_secs(10), &fd, false, 0).chitchat;
        victim.self_node_state().set("ka", "own");
        // the victim's application listens to a few prefixes (dispatch runs inside process_message)
        let _handles: Vec<chitchat::ListenerHandle> = ["k", "ke", "ka", "é", ""].iter().map(|p| victim.subscribe_event(*p, |_| {})).collect();
        let (sel, datagrams) = split_datagrams(data);
        let copies = [
            CopySpec { gc: 0, max: 3, entries: vec![EntryS { key: 0, version: 2, status: 0 }, EntryS { key: 1, version: 3, status: 1 }] },
            CopySpec { gc: 5, max: 2, entries: vec![EntryS { key: 0, version: 2, status: 0 }] },
            CopySpec { gc: 2, max: 6, entries: vec![EntryS { key: 2, version: 6, status: 2 }] },
        ];
        for (i, c) in copies.iter().enumerate() {
            if (sel >> i) & 1 == 1 {
                let _ = install_copy(&mut victim, &universe_id(1 + i), c, 5);
            }
        }
        // The statement's precondition: the members the victim knows must still fit a digest.
        // Datagrams are fed one at a time; stop once the victim knows more than 200 members.
        for d in &datagrams {
            if victim.node_states().len() > 200 {
                break;
            }
            feed_datagrams(&mut victim, std::slice::from_ref(d), None)?;
        }
        if victim.node_states().len() <= 200 {
            let r = guard(|| {
                victim.verif_update_nodes_liveness();
                real_encode(&victim.verif_create_syn_message())
            });
            if let Err(p) = r {
                return Err(Failure::new(format!("C09/aftermath-{}", p.signature()), p.describe()));
            }
        }
        Ok(())
    })
}

pub fn run_target(target: &str, data: &[u8]) -> Result<(), Failure> {
    match target {
        "wire_decode" => wire_decode(data),
        "wire_roundtrip" => wire_roundtrip(data),
        "hostile_process" => hostile_process(data),
        _ => Ok(()),
    }
}

// ------------------------------------------------------------------------------------------
// Corpus

fn sample_values<S: Strategy>(strategy: S, n: usize, seed: u64) -> Vec<S::Value> {
    let mut runner = TestRunner::new_with_rng(Config::default(), TestRng::from_seed(RngAlgorithm::ChaCha, &derive_seed(seed, "corpus", "gen", 0)));
    (0..n).filter_map(|_| strategy.new_tree(&mut runner).ok().map(|t| t.current())).collect()
}

/// Deterministic seed corpus: valid messages of every kind (small and multi-block) and hostile
/// datagram sequences.
pub fn corpus_for(target: &str, n: usize) -> Vec<Vec<u8>> {
    let mut out = generated_corpus(target, n);
    // Committed inputs (earlier fuzzer discoveries), named fuzz-<target>-<hash>.
    if let Ok(rd) = std::fs::read_dir(format!("{}/corpus", verif_dir())) {
        let mut files: Vec<_> = rd.filter_map(|e| e.ok()).map(|e| e.path()).filter(|p| p.file_name().map(|n| n.to_string_lossy().contains(target)).unwrap_or(false)).collect();
        files.sort();
        for f in files {
            if let Ok(data) = std::fs::read(&f) {
                out.push(data);
            }
        }
    }
    out
}

fn generated_corpus(target: &str, n: usize) -> Vec<Vec<u8>> {
    match target {
        "wire_decode" => sample_values(wire_case_strategy(), n, 11)
            .into_iter()
            .map(|c| encode_msg(&model_of(&c), c.blocking).0)
            .filter(|b| b.len() <= MAX_DATAGRAM)
            .collect(),
        "hostile_process" => sample_values(case_strategy(), n, 12)
            .into_iter()
            .map(|c| {
                let mut out = vec![c.own_keys];
                for d in &c.datagrams {
                    if let Some(b) = datagram_bytes(d) {
                        let b = &b[..b.len().min(60_000)];
                        out.extend_from_slice(&(b.len() as u16).to_le_bytes());
                        out.extend_from_slice(b);
                    }
                }
                out
            })
            .filter(|b| b.len() <= MAX_DATAGRAM)
            .collect(),
        _ => (0..n).map(|i| (0..64 + i * 7).map(|j| splitmix64((i * 1000 + j) as u64) as u8).collect()).collect(),
    }
}

/// Quick tier: replay the deterministic corpus through the in-process oracles.
pub fn corpus_replay(ctx: &Ctx, targets: &[&str], n: usize) -> SubResult {
    let mut res = SubResult { sub: "fuzz-corpus-replay".into(), ..Default::default() };
    for target in targets {
        for (i, data) in corpus_for(target, n).iter().enumerate() {
            res.tally.evaluations += 1;
            if data.len() > 16_384 {
                res.tally.nontrivial(fnv64(data));
            }
            let inflight = if inflight_enabled(&ctx.prop) {
                let dir = format!("{}/inflight", out_dir());
                let _ = std::fs::create_dir_all(&dir);
                let path = format!("{dir}/fuzz-{target}-{:016x}", fnv64(data));
                let _ = std::fs::write(&path, data);
                Some(path)
            } else {
                None
            };
            let outcome = run_target(target, data);
            if let Some(path) = &inflight {
                let _ = std::fs::remove_file(path);
            }
            if let Err(f) = outcome {
                let dir = format!("{}/replays", out_dir());
                let _ = std::fs::create_dir_all(&dir);
                let path = format!("{dir}/fuzz-{target}-{:016x}", fnv64(data));
                let _ = std::fs::write(&path, data);
                res.violations.push(Violation { signature: f.signature, message: format!("corpus item {i} of {target}: {}", f.message), replay_path: path });
                break;
            }
        }
        res.tally.label(&format!("corpus_{target}"));
    }
    let _ = ctx;
    res
}

/// Thorough tier: coverage-guided campaign with libFuzzer (cargo +nightly fuzz). Unavailable
/// toolchain or build failure is recorded, not a verdict.
pub fn campaign(ctx: &Ctx, target: &str, runs: u64, max_len: usize) -> SubResult {
    let mut res = SubResult { sub: format!("libfuzzer-{target}"), ..Default::default() };
    let work = PathBuf::from(format!("{}/target/fuzz-work/{}-{target}-{}", verif_dir(), ctx.prop, std::process::id()));
    let corpus = work.join("corpus");
    let artifacts = work.join("artifacts");
    let _ = std::fs::remove_dir_all(&work);
    if std::fs::create_dir_all(&corpus).is_err() || std::fs::create_dir_all(&artifacts).is_err() {
        res.tally.label("fuzz_unavailable_workdir");
        return res;
    }
    for (i, data) in corpus_for(target, 300).iter().enumerate() {
        let _ = std::fs::write(corpus.join(format!("seed-{i:04}")), data);
    }
    let seed = if ctx.seed == 0 { 1 } else { ctx.seed % 0x7FFF_FFFF };
    let out = Command::new("cargo")
        .current_dir(format!("{}/harness", verif_dir()))
        .env("RUSTUP_TOOLCHAIN", "nightly")
        .env("CARGO_NET_OFFLINE", "true")
        .args(["fuzz", "run", "--fuzz-dir", &format!("{}/fuzz", verif_dir()), target])
        .arg(&corpus)
        .arg("--")
        .arg(format!("-artifact_prefix={}/", artifacts.display()))
        .arg(format!("-runs={runs}"))
        .arg(format!("-seed={seed}"))
        .arg(format!("-max_len={max_len}"))
        .args(["-len_control=0", "-rss_limit_mb=6144", "-timeout=60", "-print_final_stats=1"])
        .output();
    let Ok(out) = out else {
        res.tally.label("fuzz_unavailable_cargo");
        return res;
    };
    let stderr = String::from_utf8_lossy(&out.stderr).to_string();
    let execs = stderr.lines().filter_map(|l| l.strip_prefix("stat::number_of_executed_units:")).filter_map(|v| v.trim().parse::<u64>().ok()).last().unwrap_or(0);
    let cov = stderr.lines().rev().find(|l| l.contains(" cov: ")).map(|l| l.to_string()).unwrap_or_default();
    res.tally.evaluations += execs;
    res.tally.sum("libfuzzer_executions", execs);
    if execs > 0 {
        res.tally.nontrivial(execs);
        res.tally.nontrivial(execs + 1);
        res.tally.sample(|| serde_json::json!({"target": target, "executions": execs, "last_status_line": cov}));
    }
    // Crash artifacts: confirm each in-process with the same oracle before reporting it.
    let mut crashes: Vec<PathBuf> = std::fs::read_dir(&artifacts).map(|rd| rd.filter_map(|e| e.ok()).map(|e| e.path()).collect()).unwrap_or_default();
    crashes.sort();
    for c in crashes {
        let name = c.file_name().map(|n| n.to_string_lossy().to_string()).unwrap_or_default();
        let Ok(data) = std::fs::read(&c) else { continue };
        if name.starts_with("crash-") {
            match run_target(target, &data) {
                Err(f) => {
                    let dir = format!("{}/replays", out_dir());
                    let _ = std::fs::create_dir_all(&dir);
                    let path = format!("{dir}/fuzz-{target}-{:016x}", fnv64(&data));
                    let _ = std::fs::write(&path, &data);
                    res.violations.push(Violation { signature: f.signature, message: format!("libFuzzer crash confirmed in-process: {}", f.message), replay_path: path });
                }
                Ok(()) => res.inconclusive.push(format!("libFuzzer artifact {name} does not reproduce in-process")),
            }
        } else {
            // timeout-/oom-/slow-unit: resource exhaustion is an observation, never a violation
            res.tally.label(&format!("artifact_{}", name.split('-').next().unwrap_or("other")));
        }
    }
    if execs == 0 && res.violations.is_empty() {
        res.tally.label("fuzz_unavailable_or_build_failed");
        eprintln!("libFuzzer campaign for {target} did not run: {}", stderr.lines().rev().take(5).collect::<Vec<_>>().join(" | "));
    }
    let _ = std::fs::remove_dir_all(&work);
    res
}

/// Replays a raw artifact / corpus file whose name encodes the target (`fuzz-<target>-<hash>`).
pub fn replay_raw(path: &Path) -> Option<Result<(), Failure>> {
    let name = path.file_name()?.to_string_lossy().to_string();
    let target = ["wire_decode", "wire_roundtrip", "hostile_process"].into_iter().find(|t| name.contains(t))?;
    let data = std::fs::read(path).ok()?;
    Some(run_target(target, &data))
}

/// Debug helper: the structured case the `wire_roundtrip` target builds from raw bytes.
pub fn arb_case_pub(data: &[u8]) -> Option<WireCase> {
    let mut u = Unstructured::new(data);
    arb_case(&mut u).ok()
}
