//! Engine E7: the gossip server under a scripted transport (C19), plus a loopback UDP smoke.

use std::collections::VecDeque;
use std::net::SocketAddr;
use std::sync::{Arc, Mutex};
use std::time::Duration;

use async_trait::async_trait;
use chitchat::transport::{Socket, Transport, UdpTransport};
use chitchat::verif::{verif_describe, VerifMessage};
use chitchat::{spawn_chitchat, ChitchatConfig, ChitchatMessage, FailureDetectorConfig};
use proptest::prelude::*;
use serde::{Deserialize, Serialize};
use serde_json::json;
use tokio::sync::mpsc;

use crate::common::*;
use crate::util::*;
use crate::wire::*;

#[derive(Clone, Debug, Serialize, Deserialize, PartialEq)]
pub enum Ev {
    /// The next `n` sends succeed.
    SendOk(u8),
    /// The next `n` sends fail (0: "message too long", 1: "network unreachable").
    SendErr(u8, u8),
    /// A valid message arrives (0 Syn same cluster, 1 Syn other cluster, 2 SynAck, 3 Ack, 4 BadCluster).
    Recv(u8),
    /// Virtual time passes (ms); gossip ticks happen.
    Delay(u16),
    /// The user takes the lock and writes a key.
    UserLock,
    /// The user asks for a gossip round with an address.
    UserGossip,
    /// The user takes the shared-state lock and keeps it for a while (virtual ms), then releases.
    UserHoldLock(u16),
    /// A message needing a reply arrives and the reply's send is held back by the transport; the
    /// user must be able to take the lock while that send is pending; then the send completes.
    GatedReply(u8),
    /// Same with the SYN of the next gossip tick.
    GatedTick,
    /// Sustained inbound traffic for this many gossip intervals: messages arrive faster than the
    /// (slow) transport lets the node answer them, so the receive queue is never empty. Gossip
    /// rounds must keep happening.
    Flood(u8),
    /// The user asks for a gossip round and, without yielding, asks for shutdown.
    GossipThenShutdown,
    /// The user queues this many gossip requests back-to-back and then, without yielding, asks
    /// for shutdown (selector into {2, 12, 127, 128, 129, 300, 1000}).
    GossipBurstThenShutdown(u8),
    RecvFatal,
    RecvPanic,
    Shutdown,
}

#[derive(Clone, Debug, Serialize, Deserialize)]
pub struct SrvCase {
    pub events: Vec<Ev>,
    pub gossip_interval_ms: u16,
}

enum RecvItem {
    Msg(SocketAddr, ChitchatMessage),
    Fatal(String),
    Panic,
}

#[derive(Default)]
struct Shared {
    send_plan: VecDeque<Option<u8>>,
    sent: Vec<(SocketAddr, &'static str, bool)>,
    /// Destinations for which every send fails.
    fail_addrs: std::collections::HashSet<SocketAddr>,
    /// When set, the next send blocks (after being recorded) until the harness opens the gate.
    gate_next_send: bool,
    gate_entered: bool,
    /// Every send takes this long (virtual microseconds): a slow network.
    send_delay_us: u64,
}

struct ScriptTransport {
    gate: Arc<tokio::sync::Notify>,
    shared: Arc<Mutex<Shared>>,
    rx: Mutex<Option<mpsc::UnboundedReceiver<RecvItem>>>,
}

struct ScriptSocket {
    gate: Arc<tokio::sync::Notify>,
    shared: Arc<Mutex<Shared>>,
    rx: mpsc::UnboundedReceiver<RecvItem>,
}

#[async_trait]
impl Transport for ScriptTransport {
    async fn open(&self, _listen_addr: SocketAddr) -> anyhow::Result<Box<dyn Socket>> {
        let rx = self.rx.lock().unwrap().take().ok_or_else(|| anyhow::anyhow!("already open"))?;
        Ok(Box::new(ScriptSocket { gate: self.gate.clone(), shared: self.shared.clone(), rx }))
    }
}

fn kind_of(msg: &ChitchatMessage) -> &'static str {
    match verif_describe(msg) {
        VerifMessage::Syn { .. } => "SYN",
        VerifMessage::SynAck { .. } => "SYN-ACK",
        VerifMessage::Ack { .. } => "ACK",
        VerifMessage::BadCluster => "BadCluster",
    }
}

#[async_trait]
impl Socket for ScriptSocket {
    async fn send(&mut self, to: SocketAddr, msg: ChitchatMessage) -> anyhow::Result<()> {
        // A real socket yields to the scheduler.
        tokio::task::yield_now().await;
        let (outcome, gated) = {
            let mut sh = self.shared.lock().unwrap();
            let mut outcome = sh.send_plan.pop_front().flatten();
            if sh.fail_addrs.contains(&to) {
                outcome = Some(1);
            }
            sh.sent.push((to, kind_of(&msg), outcome.is_none()));
            let gated = std::mem::replace(&mut sh.gate_next_send, false);
            if gated {
                sh.gate_entered = true;
            }
            (outcome, gated)
        };
        if gated {
            // Back-pressure: the datagram leaves only when the harness opens the gate.
            self.gate.notified().await;
        }
        let delay = self.shared.lock().unwrap().send_delay_us;
        if delay > 0 {
            tokio::time::sleep(Duration::from_micros(delay)).await;
        }
        match outcome {
            None => Ok(()),
            Some(0) => Err(anyhow::anyhow!("failed to send chitchat message to peer: Message too long (os error 90)")),
            Some(_) => Err(anyhow::anyhow!("failed to send chitchat message to peer: Network is unreachable (os error 101)")),
        }
    }

    async fn recv(&mut self) -> anyhow::Result<(SocketAddr, ChitchatMessage)> {
        match self.rx.recv().await {
            Some(RecvItem::Msg(addr, msg)) => Ok((addr, msg)),
            Some(RecvItem::Fatal(text)) => Err(anyhow::anyhow!(text)),
            Some(RecvItem::Panic) => panic!("scripted panic in recv"),
            None => std::future::pending().await,
        }
    }
}

fn peer_addr(i: u16) -> SocketAddr {
    SocketAddr::from(([127, 0, 0, 1], 9100 + i))
}

fn message(kind: u8, n: u64) -> ChitchatMessage {
    let peer = WId::v4("peer", 0, 9101);
    let digest = vec![WNodeDigest { id: peer.clone(), heartbeat: 10 + n, last_gc: 0, max_version: n }];
    let ops = vec![WOp::Node { id: peer, last_gc: 0, from_version: 0 }, WOp::Kv(WKv { key: "k".into(), value: format!("v{n}"), version: n + 1, status: 0 })];
    let m = match kind % 5 {
        0 => WMsg::Syn { cluster_id: "c".into(), digest },
        1 => WMsg::Syn { cluster_id: "other".into(), digest },
        2 => WMsg::SynAck { digest, ops },
        3 => WMsg::Ack { ops },
        _ => WMsg::BadCluster,
    };
    let (bytes, _) = encode_msg(&m, Blocking::Canonical);
    real_decode(&bytes).expect("decodes").0
}

fn vio<T>(sig: &str, msg: String) -> Result<T, Failure> {
    Err(Failure::new(sig, msg))
}

const STALL: Duration = Duration::from_secs(3600);

pub fn exec_srv(case: &SrvCase, tally: &mut Tally) -> Result<(), Failure> {
    // The server task must not outlive the case: a fresh runtime per case, dropped at the end.
    let rt = tokio::runtime::Builder::new_current_thread().enable_time().start_paused(true).build().expect("runtime");
    let result = rt.block_on(async {
        let interval = Duration::from_millis(case.gossip_interval_ms.max(10) as u64);
        let shared = Arc::new(Mutex::new(Shared::default()));
        let (tx, rx) = mpsc::unbounded_channel();
        let gate = Arc::new(tokio::sync::Notify::new());
        let transport = ScriptTransport { gate: gate.clone(), shared: shared.clone(), rx: Mutex::new(Some(rx)) };
        let id = simple_id("server", 0, 9000);
        let seed = peer_addr(0);
        let config = ChitchatConfig {
            chitchat_id: id.clone(),
            cluster_id: "c".into(),
            gossip_interval: interval,
            listen_addr: id.gossip_advertise_addr,
            seed_nodes: vec![seed.to_string()],
            failure_detector_config: FailureDetectorConfig::default(),
            marked_for_deletion_grace_period: Duration::from_secs(3600),
            catchup_callback: None,
            extra_liveness_predicate: None,
        };
        let handle = match spawn_chitchat(config, vec![("init".into(), "1".into())], &transport).await {
            Ok(h) => h,
            Err(e) => return vio("C19/spawn-failed", format!("{e:#}")),
        };
        let mut fatal: Option<&'static str> = None;
        let mut shut = false;
        let mut n = 0u64;
        let mut send_error_then_exchange = false;
        let mut had_send_error = false;
        let mut handle = Some(handle);
        for (step, ev) in case.events.iter().enumerate() {
            n += 1;
            let h = handle.as_ref().unwrap();
            match ev {
                Ev::SendOk(k) => {
                    let mut sh = shared.lock().unwrap();
                    for _ in 0..*k % 4 + 1 {
                        sh.send_plan.push_back(None);
                    }
                }
                Ev::SendErr(k, kind) => {
                    let mut sh = shared.lock().unwrap();
                    for _ in 0..*k % 4 + 1 {
                        sh.send_plan.push_back(Some(*kind % 2));
                    }
                    had_send_error = true;
                }
                Ev::Recv(kind) => {
                    let _ = tx.send(RecvItem::Msg(peer_addr(1), message(*kind, n)));
                    tokio::time::sleep(Duration::from_millis(1)).await;
                }
                Ev::Delay(ms) => tokio::time::sleep(Duration::from_millis(*ms as u64)).await,
                Ev::UserLock => {
                    if fatal.is_none() && !shut {
                        let r = tokio::time::timeout(STALL, h.with_chitchat(|c| {
                            c.self_node_state().set("user", format!("{step}"));
                        }))
                        .await;
                        if r.is_err() {
                            return vio("C19/user-lock-deadlock", format!("event {step}: with_chitchat did not return within {STALL:?} of virtual time"));
                        }
                    }
                }
                Ev::UserHoldLock(ms) => {
                    if fatal.is_none() && !shut {
                        let arc = h.chitchat();
                        let r = tokio::time::timeout(STALL, async {
                            let mut guard = arc.lock().await;
                            guard.self_node_state().set("held", format!("{step}"));
                            tokio::time::sleep(Duration::from_millis(*ms as u64)).await;
                            drop(guard);
                        })
                        .await;
                        if r.is_err() {
                            return vio("C19/user-lock-deadlock", format!("event {step}: taking the shared lock did not succeed within {STALL:?} of virtual time"));
                        }
                    }
                }
                Ev::GatedReply(_) | Ev::GatedTick => {
                    if fatal.is_none() && !shut {
                        {
                            let mut sh = shared.lock().unwrap();
                            sh.gate_next_send = true;
                            sh.gate_entered = false;
                        }
                        if let Ev::GatedReply(kind) = ev {
                            let _ = tx.send(RecvItem::Msg(peer_addr(1), message(*kind % 3 % 2, n)));
                            tokio::time::sleep(Duration::from_millis(1)).await;
                        } else {
                            tokio::time::sleep(interval + Duration::from_millis(1)).await;
                        }
                        let entered = shared.lock().unwrap().gate_entered;
                        if entered {
                            let r = tokio::time::timeout(STALL, h.with_chitchat(|c| {
                                c.self_node_state().set("during-send", format!("{step}"));
                            }))
                            .await;
                            gate.notify_one();
                            if r.is_err() {
                                return vio("C19/lock-held-across-send", format!("event {step}: while a send was pending in the transport, with_chitchat did not get the lock within {STALL:?} of virtual time (the loop holds the state lock across the send)"));
                            }
                            tally.label("user_lock_during_pending_send");
                        } else {
                            shared.lock().unwrap().gate_next_send = false;
                        }
                        tokio::time::sleep(Duration::from_millis(1)).await;
                    }
                }
                Ev::Flood(k) => {
                    if fatal.is_none() && !shut {
                        let intervals = (*k % 6 + 6) as u32;
                        shared.lock().unwrap().send_delay_us = 1_000;
                        let before = shared.lock().unwrap().sent.len();
                        let feeder_tx = tx.clone();
                        let total = interval * intervals;
                        let feeder = tokio::spawn(async move {
                            let start = tokio::time::Instant::now();
                            let mut i = 0u64;
                            while start.elapsed() < total {
                                i += 1;
                                // two messages needing a reply per millisecond of sending capacity
                                let _ = feeder_tx.send(RecvItem::Msg(peer_addr(1), message(0, i % 50)));
                                tokio::time::sleep(Duration::from_micros(400)).await;
                            }
                        });
                        tokio::time::sleep(total).await;
                        let _ = feeder.await;
                        shared.lock().unwrap().send_delay_us = 0;
                        let sent: Vec<(SocketAddr, &'static str, bool)> = shared.lock().unwrap().sent[before..].to_vec();
                        let rounds = sent.iter().filter(|(to, k, _)| *k == "SYN" && *to == seed).count();
                        if (rounds as u32) < intervals / 3 {
                            return vio("C19/rounds-starved-by-inbound-traffic", format!("event {step}: during {intervals} gossip intervals of sustained inbound traffic only {rounds} gossip rounds reached the seed ({} replies were sent)", sent.iter().filter(|(_, k, _)| *k == "SYN-ACK").count()));
                        }
                        tally.label("flood");
                        // let the backlog drain
                        tokio::time::sleep(interval * 2).await;
                    }
                }
                Ev::GossipThenShutdown => {
                    if !shut {
                        shut = true;
                        let h = handle.take().unwrap();
                        let _ = h.gossip(peer_addr(2));
                        let r = tokio::time::timeout(STALL, h.shutdown()).await;
                        if r.is_err() {
                            return vio("C19/shutdown-hangs", format!("event {step}: a shutdown requested right after a gossip request did not complete within {STALL:?} of virtual time"));
                        }
                        tally.label("gossip_then_shutdown");
                        break;
                    }
                }
                Ev::GossipBurstThenShutdown(sel) => {
                    if !shut {
                        shut = true;
                        let h = handle.take().unwrap();
                        let n = [2usize, 12, 127, 128, 129, 300, 1000][*sel as usize % 7];
                        for i in 0..n {
                            let _ = h.gossip(peer_addr(2 + (i % 3) as u16));
                        }
                        let r = tokio::time::timeout(STALL, h.shutdown()).await;
                        if r.is_err() {
                            return vio("C19/shutdown-hangs", format!("event {step}: a shutdown requested right after {n} queued gossip requests did not complete within {STALL:?} of virtual time"));
                        }
                        tally.label("gossip_burst_then_shutdown");
                        if n >= 128 {
                            tally.label("burst_of_128_or_more_requests");
                        }
                        break;
                    }
                }
                Ev::UserGossip => {
                    let _ = h.gossip(peer_addr(2));
                    tokio::time::sleep(Duration::from_millis(1)).await;
                }
                Ev::RecvFatal => {
                    if fatal.is_none() && !shut {
                        let _ = tx.send(RecvItem::Fatal("scripted fatal recv error".into()));
                        fatal = Some("fatal");
                        tokio::time::sleep(Duration::from_millis(1)).await;
                    }
                }
                Ev::RecvPanic => {
                    if fatal.is_none() && !shut {
                        let prev = guard_quiet_start();
                        let _ = tx.send(RecvItem::Panic);
                        fatal = Some("panic");
                        tokio::time::sleep(Duration::from_millis(1)).await;
                        guard_quiet_end(prev);
                    }
                }
                Ev::Shutdown => {
                    if !shut {
                        shut = true;
                        let watcher = h.termination_watcher();
                        let h = handle.take().unwrap();
                        let r = tokio::time::timeout(STALL, h.shutdown()).await;
                        match r {
                            Err(_) => return vio("C19/shutdown-hangs", format!("event {step}: shutdown() did not complete within {STALL:?} of virtual time")),
                            Ok(res) => {
                                if fatal.is_none() && res.is_err() {
                                    return vio("C19/shutdown-error", format!("event {step}: clean shutdown returned {res:?}"));
                                }
                            }
                        }
                        let w = tokio::time::timeout(STALL, watcher).await;
                        match w {
                            Err(_) => return vio("C19/watcher-hangs", "termination watcher did not resolve after shutdown".into()),
                            Ok(res) => {
                                if fatal.is_none() && res.is_err() {
                                    return vio("C19/watcher-error-on-clean-shutdown", format!("termination watcher reports {res:?} after a clean shutdown"));
                                }
                            }
                        }
                        tally.label("shutdown");
                        break;
                    }
                }
            }
        }
        if shut {
            if fatal.is_some() {
                tally.nontrivial(str_hash(&format!("{case:?}")));
            }
            return Ok(());
        }
        let h = handle.take().unwrap();
        match fatal {
            Some(kind) => {
                let w = tokio::time::timeout(STALL, h.termination_watcher()).await;
                match w {
                    Err(_) => return vio("C19/fatal-not-reported", format!("after a {kind} in recv the termination watcher did not resolve")),
                    Ok(Ok(())) => return vio("C19/fatal-reported-ok", format!("after a {kind} in recv the termination watcher reports success")),
                    Ok(Err(e)) => {
                        let text = format!("{e:#}");
                        if kind == "fatal" && !text.contains("scripted fatal recv error") {
                            return vio("C19/fatal-error-lost", format!("termination watcher error {text:?} does not carry the recv error"));
                        }
                        if kind == "panic" && !text.contains("panicked") {
                            return vio("C19/panic-not-reported", format!("termination watcher error {text:?} after a panic"));
                        }
                    }
                }
                let prev = guard_quiet_start();
                let r = tokio::time::timeout(STALL, h.shutdown()).await;
                guard_quiet_end(prev);
                if r.is_err() {
                    return vio("C19/shutdown-hangs", format!("shutdown() after a {kind} did not complete"));
                }
                tally.label(if kind == "fatal" { "fatal_recv" } else { "recv_panic" });
                tally.nontrivial(str_hash(&format!("{case:?}")));
            }
            None => {
                // Liveness of the loop: heartbeat keeps increasing, SYNs keep flowing, probe answered.
                shared.lock().unwrap().send_plan.clear();
                let hb0 = match tokio::time::timeout(STALL, h.with_chitchat(|c| u64::from(c.self_node_state().heartbeat()))).await {
                    Ok(v) => v,
                    Err(_) => return vio("C19/user-lock-deadlock", "with_chitchat did not return after the script".into()),
                };
                let sent_before = shared.lock().unwrap().sent.len();
                tokio::time::sleep(interval * 4).await;
                let probe = peer_addr(7);
                let _ = tx.send(RecvItem::Msg(probe, message(0, 99)));
                tokio::time::sleep(interval * 2).await;
                let hb1 = match tokio::time::timeout(STALL, h.with_chitchat(|c| u64::from(c.self_node_state().heartbeat()))).await {
                    Ok(v) => v,
                    Err(_) => return vio("C19/user-lock-deadlock", "with_chitchat did not return after the script".into()),
                };
                if hb1 <= hb0 {
                    return vio("C19/loop-stalled", format!("heartbeat did not increase over 6 gossip intervals ({hb0} -> {hb1}) after script {:?}", case.events));
                }
                let sent: Vec<(SocketAddr, &'static str, bool)> = shared.lock().unwrap().sent[sent_before..].to_vec();
                if !sent.iter().any(|(_, k, _)| *k == "SYN") {
                    return vio("C19/no-more-gossip", format!("no SYN emitted over 6 gossip intervals after script {:?}", case.events));
                }
                if !sent.iter().any(|(to, k, _)| *to == probe && *k == "SYN-ACK") {
                    return vio("C19/probe-unanswered", format!("a SYN received after the script was not answered with a SYN-ACK (sent: {sent:?})"));
                }
                if tokio::time::timeout(STALL, h.termination_watcher()).now_or_never_ready() {
                    return vio("C19/terminated-without-fatal", "the loop terminated although no fatal event occurred".into());
                }
                let r = tokio::time::timeout(STALL, h.shutdown()).await;
                match r {
                    Err(_) => return vio("C19/shutdown-hangs", "final shutdown() did not complete".into()),
                    Ok(Err(e)) => return vio("C19/shutdown-error", format!("final shutdown returned {e:#}")),
                    Ok(Ok(())) => {}
                }
                if had_send_error && sent.iter().any(|(_, _, ok)| *ok) {
                    send_error_then_exchange = true;
                }
                if send_error_then_exchange {
                    tally.label("send_error_then_exchange");
                    tally.nontrivial(str_hash(&format!("{case:?}")));
                    tally.sample(|| json!({"events": case.events.iter().map(|e| format!("{e:?}")).collect::<Vec<_>>(), "interval_ms": case.gossip_interval_ms}));
                }
            }
        }
        Ok(())
    });
    drop(rt);
    result
}

fn guard_quiet_start() -> bool {
    crate::common::set_quiet_panics(true)
}
fn guard_quiet_end(prev: bool) {
    crate::common::set_quiet_panics(prev);
}

trait NowOrNever {
    fn now_or_never_ready(self) -> bool;
}

impl<F: std::future::Future> NowOrNever for F {
    /// Polls once: true if the future is immediately ready.
    fn now_or_never_ready(self) -> bool {
        use std::task::{Context, Poll, RawWaker, RawWakerVTable, Waker};
        fn noop_raw() -> RawWaker {
            fn no(_: *const ()) {}
            fn clone(_: *const ()) -> RawWaker {
                noop_raw()
            }
            static VT: RawWakerVTable = RawWakerVTable::new(clone, no, no, no);
            RawWaker::new(std::ptr::null(), &VT)
        }
        let waker = unsafe { Waker::from_raw(noop_raw()) };
        let mut cx = Context::from_waker(&waker);
        let mut fut = Box::pin(self);
        matches!(fut.as_mut().poll(&mut cx), Poll::Ready(_))
    }
}

fn ev_strategy() -> impl Strategy<Value = Ev> {
    prop_oneof![
        2 => (0u8..4).prop_map(Ev::SendOk),
        4 => (0u8..4, 0u8..2).prop_map(|(a, b)| Ev::SendErr(a, b)),
        5 => (0u8..5).prop_map(Ev::Recv),
        4 => prop_oneof![Just(1u16), 5u16..400, 400u16..3000].prop_map(Ev::Delay),
        2 => Just(Ev::UserLock),
        1 => Just(Ev::UserGossip),
        2 => prop_oneof![Just(1u16), 50u16..5000].prop_map(Ev::UserHoldLock),
        2 => (0u8..3).prop_map(Ev::GatedReply),
        1 => Just(Ev::GatedTick),
        1 => (0u8..6).prop_map(Ev::Flood),
        1 => Just(Ev::GossipThenShutdown),
        1 => (0u8..7).prop_map(Ev::GossipBurstThenShutdown),
        1 => Just(Ev::RecvFatal),
        1 => Just(Ev::RecvPanic),
        1 => Just(Ev::Shutdown),
    ]
}

pub fn case_strategy() -> impl Strategy<Value = SrvCase> {
    (proptest::collection::vec(ev_strategy(), 0..=12), prop_oneof![Just(50u16), Just(100u16), Just(1000u16)]).prop_map(|(events, gossip_interval_ms)| SrvCase { events, gossip_interval_ms })
}

// ------------------------------------------------------------------------------------------
// Loopback UDP smoke: garbage, truncated and maximum-size datagrams on the real transport.

pub fn udp_smoke(ctx: &Ctx) -> SubResult {
    let mut res = SubResult { sub: "udp-loopback-smoke".into(), ..Default::default() };
    let rt = tokio::runtime::Builder::new_current_thread().enable_all().build().expect("runtime");
    let seed = ctx.seed;
    let outcome: Result<(u64, u64), String> = rt.block_on(async move {
        // Find a free port pair.
        let probe = tokio::net::UdpSocket::bind("127.0.0.1:0").await.map_err(|e| format!("bind: {e}"))?;
        let server_probe = std::net::UdpSocket::bind("127.0.0.1:0").map_err(|e| format!("bind: {e}"))?;
        let server_addr = server_probe.local_addr().map_err(|e| e.to_string())?;
        drop(server_probe);
        let id = chitchat::ChitchatId::new("udp-server".into(), 0, server_addr);
        let config = ChitchatConfig {
            chitchat_id: id,
            cluster_id: "c".into(),
            gossip_interval: Duration::from_millis(100),
            listen_addr: server_addr,
            seed_nodes: vec![],
            failure_detector_config: FailureDetectorConfig::default(),
            marked_for_deletion_grace_period: Duration::from_secs(3600),
            catchup_callback: None,
            extra_liveness_predicate: None,
        };
        let handle = spawn_chitchat(config, vec![("secret".to_string(), "1".to_string())], &UdpTransport).await.map_err(|e| format!("spawn: {e:#}"))?;
        // A second real server of ANOTHER cluster, seeded at the first one. Its cluster id is the
        // first one's id followed by 65,536 more bytes (the length prefix of a string is 16 bits):
        // neither server may ever learn the other, whatever the transport does with a message that
        // does not fit a datagram.
        let other_probe = std::net::UdpSocket::bind("127.0.0.1:0").map_err(|e| format!("bind: {e}"))?;
        let other_addr = other_probe.local_addr().map_err(|e| e.to_string())?;
        drop(other_probe);
        let other_config = ChitchatConfig {
            chitchat_id: chitchat::ChitchatId::new("udp-other-cluster".into(), 0, other_addr),
            cluster_id: format!("c{}", "-staging".repeat(8192)),
            gossip_interval: Duration::from_millis(50),
            listen_addr: other_addr,
            seed_nodes: vec![server_addr.to_string()],
            failure_detector_config: FailureDetectorConfig::default(),
            marked_for_deletion_grace_period: Duration::from_secs(3600),
            catchup_callback: None,
            extra_liveness_predicate: None,
        };
        let other_handle = spawn_chitchat(other_config, vec![], &UdpTransport).await.map_err(|e| format!("spawn: {e:#}"))?;
        // A *valid* message that exactly fills a datagram (a SYN of another cluster whose id pads it
        // to 65,507 bytes) must be answered (with BadCluster), like a small one. The comparison with
        // the small probe keeps timing out of the verdict.
        {
            let small = encode_msg(&WMsg::Syn { cluster_id: "another-cluster".into(), digest: vec![] }, Blocking::Canonical).0;
            let pad = MAX_DATAGRAM - (small.len() - "another-cluster".len());
            let big = encode_msg(&WMsg::Syn { cluster_id: "z".repeat(pad), digest: vec![] }, Blocking::Canonical).0;
            let mut buf = vec![0u8; 65_536];
            let mut answered = [0u32; 2];
            for (which, payload, tries) in [(0usize, &small, 2), (1usize, &big, 4)] {
                for _ in 0..tries {
                    let _ = probe.send_to(payload, server_addr).await;
                    if let Ok(Ok((len, _))) = tokio::time::timeout(Duration::from_secs(2), probe.recv_from(&mut buf)).await {
                        if matches!(decode_msg(&buf[..len]).map(|d| d.msg), Ok(WMsg::BadCluster)) {
                            answered[which] += 1;
                            break;
                        }
                    }
                }
            }
            if big.len() == MAX_DATAGRAM && answered[0] > 0 && answered[1] == 0 {
                let _ = tokio::time::timeout(Duration::from_secs(10), handle.shutdown()).await;
                return Ok((0, u64::MAX - 2));
            }
        }
        // The receive side of the real transport, used directly: every kind of message (the
        // 4-byte BadCluster included) sent to a socket of the transport must come out of `recv`.
        // Verdict without timing: the SYN sent *after* three BadCluster datagrams arrives, they
        // do not (loopback UDP keeps the order and does not drop at this rate).
        {
            let sock_probe = std::net::UdpSocket::bind("127.0.0.1:0").map_err(|e| format!("bind: {e}"))?;
            let sock_addr = sock_probe.local_addr().map_err(|e| e.to_string())?;
            drop(sock_probe);
            if let Ok(mut sock) = UdpTransport.open(sock_addr).await {
                let bad = encode_msg(&WMsg::BadCluster, Blocking::Canonical).0;
                let syn = encode_msg(&WMsg::Syn { cluster_id: "c".into(), digest: vec![] }, Blocking::Canonical).0;
                for _ in 0..3 {
                    let _ = probe.send_to(&bad, sock_addr).await;
                }
                let _ = probe.send_to(&syn, sock_addr).await;
                let mut bad_seen = 0;
                let mut syn_seen = false;
                for _ in 0..4 {
                    match tokio::time::timeout(Duration::from_secs(2), sock.recv()).await {
                        Ok(Ok((_, m))) => match verif_describe(&m) {
                            VerifMessage::BadCluster => bad_seen += 1,
                            VerifMessage::Syn { .. } => {
                                syn_seen = true;
                                break;
                            }
                            _ => {}
                        },
                        _ => break,
                    }
                }
                if syn_seen && bad_seen == 0 {
                    let _ = tokio::time::timeout(Duration::from_secs(10), other_handle.shutdown()).await;
                    let _ = tokio::time::timeout(Duration::from_secs(10), handle.shutdown()).await;
                    return Ok((0, u64::MAX - 200_000));
                }
            }
        }
        let mut x = splitmix64(seed);
        let mut garbage = 0u64;
        let (valid, _) = encode_msg(&WMsg::Syn { cluster_id: "c".into(), digest: vec![] }, Blocking::Canonical);
        for i in 0..200u64 {
            x = splitmix64(x);
            let payload: Vec<u8> = match i % 4 {
                0 => (0..(x % 2000) as usize).map(|j| (x >> (j % 56)) as u8).collect(),
                1 => valid[..(x as usize % valid.len())].to_vec(),
                2 => {
                    let mut v = valid.clone();
                    let p = x as usize % v.len();
                    v[p] ^= 0x40;
                    v
                }
                _ => vec![(x & 0xFF) as u8; 65_507],
            };
            let _ = probe.send_to(&payload, server_addr).await;
            garbage += 1;
        }
        // Empty datagrams are legal UDP payloads too.
        for _ in 0..3 {
            let _ = probe.send_to(&[], server_addr).await;
            garbage += 1;
        }
        tokio::time::sleep(Duration::from_millis(300)).await;
        // Deterministic verdict: only undecodable datagrams were received, so the loop must still
        // be running (this does not depend on timing: a terminated loop stays terminated).
        if handle.termination_watcher().now_or_never_ready() {
            let _ = tokio::time::timeout(Duration::from_secs(10), handle.shutdown()).await;
            return Ok((garbage, u64::MAX));
        }
        // A failed send (an IPv6 destination from an IPv4 socket, and an unreachable-looking
        // address) must not poison later sends.
        for bad in ["[::1]:9", "[2001:db8::1]:7000"] {
            if let Ok(addr) = bad.parse::<SocketAddr>() {
                let _ = handle.gossip(addr);
            }
        }
        tokio::time::sleep(Duration::from_millis(200)).await;
        // The server must still answer.
        let mut answered = 0u64;
        let mut buf = vec![0u8; 65_536];
        for _ in 0..5 {
            let _ = probe.send_to(&valid, server_addr).await;
            let deadline = tokio::time::Instant::now() + Duration::from_secs(5);
            loop {
                match tokio::time::timeout_at(deadline, probe.recv_from(&mut buf)).await {
                    Ok(Ok((len, _))) => {
                        // Every datagram the server emits must be exactly one well-formed message.
                        match decode_msg(&buf[..len]) {
                            Ok(d) if d.consumed == len => {}
                            Ok(d) => return Ok((garbage, u64::MAX - 3 - (len - d.consumed) as u64)),
                            Err(_) => return Ok((garbage, u64::MAX - 3)),
                        }
                        if let Ok(d) = decode_msg(&buf[..len]) {
                            if matches!(d.msg, WMsg::SynAck { .. }) {
                                answered += 1;
                                break;
                            }
                        }
                    }
                    _ => break,
                }
            }
        }
        // A SYN of another cluster must be answered with exactly one BadCluster datagram, also
        // right after a failed send.
        if let Ok(addr) = "[::1]:9".parse::<SocketAddr>() {
            let _ = handle.gossip(addr);
        }
        tokio::time::sleep(Duration::from_millis(100)).await;
        let (foreign, _) = encode_msg(&WMsg::Syn { cluster_id: "another-cluster".into(), digest: vec![] }, Blocking::Canonical);
        let _ = probe.send_to(&foreign, server_addr).await;
        let deadline = tokio::time::Instant::now() + Duration::from_secs(3);
        loop {
            match tokio::time::timeout_at(deadline, probe.recv_from(&mut buf)).await {
                Ok(Ok((len, _))) => match decode_msg(&buf[..len]) {
                    Ok(d) if d.consumed == len => {
                        if matches!(d.msg, WMsg::BadCluster) {
                            break;
                        }
                        if matches!(d.msg, WMsg::SynAck { .. } | WMsg::Ack { .. }) && false {
                            break;
                        }
                    }
                    Ok(d) => return Ok((garbage, u64::MAX - 3 - (len - d.consumed) as u64)),
                    Err(_) => return Ok((garbage, u64::MAX - 3)),
                },
                _ => break,
            }
        }
        let members = handle.with_chitchat(|c| c.node_states().len()).await;
        let other_members = other_handle.with_chitchat(|c| c.node_states().len()).await;
        let _ = tokio::time::timeout(Duration::from_secs(10), other_handle.shutdown()).await;
        let finished = tokio::time::timeout(Duration::from_secs(10), handle.shutdown()).await;
        if finished.is_err() {
            return Err("shutdown timed out (real time)".into());
        }
        if members != 1 || other_members != 1 {
            return Ok((garbage, u64::MAX - 1));
        }
        Ok((garbage, answered))
    });
    match outcome {
        Ok((garbage, answered)) => {
            res.tally.evaluations += 1;
            res.tally.sum("garbage_datagrams", garbage);
            res.tally.sum("probes_answered", answered);
            if answered == u64::MAX - 200_000 {
                let f = Failure::new(format!("{}/udp-badcluster-not-received", ctx.prop), "three BadCluster datagrams (4 bytes each) followed by a SYN were sent to a socket of the real UDP transport: `recv` delivered the SYN but none of the BadCluster messages");
                let path = write_replay(ctx, "udp-loopback-smoke", &serde_json::json!({"udp_smoke": true}), &f);
                res.violations.push(Violation { signature: f.signature, message: f.message, replay_path: path });
            } else if answered == u64::MAX - 1 {
                let f = Failure::new(format!("{}/udp-clusters-leaked", ctx.prop), "two servers on the real UDP transport with different cluster ids (\"c\" and \"c\" followed by 65,536 more bytes), the second seeded at the first: after the run one of them lists the other as a member");
                let path = write_replay(ctx, "udp-loopback-smoke", &serde_json::json!({"udp_smoke": true}), &f);
                res.violations.push(Violation { signature: f.signature, message: f.message, replay_path: path });
            } else if answered == u64::MAX - 2 {
                let f = Failure::new(format!("{}/udp-max-size-message-dropped", ctx.prop), "a valid 65,507-byte message (the size budget of the library itself) is never answered on the real UDP transport while a small one is");
                let path = write_replay(ctx, "udp-loopback-smoke", &serde_json::json!({"udp_smoke": true}), &f);
                res.violations.push(Violation { signature: f.signature, message: f.message, replay_path: path });
            } else if answered != u64::MAX && answered > u64::MAX - 100_000 {
                let f = Failure::new(format!("{}/udp-malformed-answer", ctx.prop), format!("the server answered a SYN on the real UDP transport with a datagram that is not exactly one well-formed message ({} trailing bytes; 0 = undecodable)", u64::MAX - 3 - answered));
                let path = write_replay(ctx, "udp-loopback-smoke", &serde_json::json!({"udp_smoke": true}), &f);
                res.violations.push(Violation { signature: f.signature, message: f.message, replay_path: path });
            } else if answered == u64::MAX {
                let f = Failure::new(format!("{}/udp-garbage-terminated-loop", ctx.prop), "after receiving only undecodable datagrams (random bytes, truncated and bit-flipped messages, 65,507-byte and empty datagrams) on the real UDP transport the gossip loop has terminated");
                let path = write_replay(ctx, "udp-loopback-smoke", &serde_json::json!({"udp_smoke": true}), &f);
                res.violations.push(Violation { signature: f.signature, message: f.message, replay_path: path });
            } else if answered == 0 {
                // Real time + real sockets: a timeout is inconclusive, never a verdict.
                res.inconclusive.push("udp smoke: no SYN-ACK within the real-time timeout".into());
            } else {
                res.tally.nontrivial(1);
            }
        }
        Err(e) => {
            // Environment problems (no loopback, port clash) are not verdicts: note and go on.
            res.tally.label("udp_smoke_skipped");
            eprintln!("udp smoke skipped: {e}");
        }
    }
    res
}

pub fn run(ctx: &Ctx, report: &mut Report) {
    report.push(run_proptest(ctx, "scripted-transport", ctx.cases(30_000, 300_000), 800, case_strategy, exec_srv));
    report.push(udp_smoke(ctx));
}

pub fn replay(ctx: &Ctx, sub: &str, case: &serde_json::Value) -> SubResult {
    if sub == "udp-loopback-smoke" {
        return udp_smoke(ctx);
    }
    replay_case::<SrvCase, _>(ctx, sub, case, exec_srv)
}

// ------------------------------------------------------------------------------------------
// C17 at the server level: per gossip round the server contacts at most 3 + 1 + 1 addresses, all
// of them known peers or seeds, never its own address (the pools are built with self filtered).

#[derive(Clone, Debug, Serialize, Deserialize)]
pub struct TargetsCase {
    /// Number of peers introduced through a digest (0..=12).
    pub peers: u8,
    /// How many of them keep heartbeating (become live).
    pub live: u8,
    /// Seeds: bit 0 = a foreign seed, bit 1 = the server's own address is listed as a seed too
    /// (usual in deployments where every node gets the same seed list), bit 2 = a peer is a seed.
    pub seeds: u8,
    pub rounds: u8,
    /// Bitmask of peers whose address refuses every send (per-destination error).
    #[serde(default)]
    pub failing_peers: u16,
    /// The server is configured with an application liveness predicate (a READY key) that no peer
    /// satisfies: the peer pools of the gossip round must not depend on it.
    #[serde(default)]
    pub predicate: bool,
    /// A host-name seed (`localhost:9300`) next to the literal ones, and the run lasts past the
    /// first DNS refresh (60 s): the literal seeds must stay in the seed set.
    #[serde(default)]
    pub hostname_seed: bool,
    /// The server listens on the wildcard address (0.0.0.0:port) and advertises 127.0.0.1:port.
    #[serde(default)]
    pub wildcard_listen: bool,
    /// Every round a SYN of *another cluster* arrives from the address of each silent peer (a node
    /// of another cluster started on a dead member's address): it must change nothing.
    #[serde(default)]
    pub foreign_from_dead: bool,
    /// The application holds the state lock across every tick (from 10 ms before to 10 ms after):
    /// the round must still take place once the lock is free.
    #[serde(default)]
    pub lock_at_ticks: bool,
}

pub fn exec_targets(case: &TargetsCase, tally: &mut Tally) -> Result<(), Failure> {
    let rt = tokio::runtime::Builder::new_current_thread().enable_time().start_paused(true).build().expect("runtime");
    let result = rt.block_on(async {
        let interval = Duration::from_millis(1000);
        let shared = Arc::new(Mutex::new(Shared::default()));
        let (tx, rx) = mpsc::unbounded_channel();
        let gate = Arc::new(tokio::sync::Notify::new());
        let transport = ScriptTransport { gate: gate.clone(), shared: shared.clone(), rx: Mutex::new(Some(rx)) };
        let id = simple_id("server", 0, 9000);
        let own_addr = id.gossip_advertise_addr;
        let n_peers = (case.peers % 13) as usize;
        let peer_ids: Vec<WId> = (0..n_peers).map(|i| WId::v4(&format!("p{i}"), 0, 9200 + i as u16)).collect();
        let mut seeds: Vec<String> = Vec::new();
        let foreign_seed = peer_addr(50);
        if case.seeds & 1 != 0 {
            seeds.push(foreign_seed.to_string());
        }
        if case.seeds & 2 != 0 {
            seeds.push(own_addr.to_string());
        }
        if case.seeds & 4 != 0 && n_peers > 0 {
            seeds.push(format!("127.0.0.1:{}", 9200));
        }
        if case.hostname_seed {
            seeds.push("localhost:9300".to_string());
        }
        let config = ChitchatConfig {
            chitchat_id: id.clone(),
            cluster_id: "c".into(),
            gossip_interval: interval,
            listen_addr: if case.wildcard_listen { SocketAddr::from(([0, 0, 0, 0], own_addr.port())) } else { own_addr },
            seed_nodes: seeds.clone(),
            // 20 s: dead peers are scheduled for deletion after 10 rounds and removed after 20
            failure_detector_config: FailureDetectorConfig { dead_node_grace_period: Duration::from_secs(20), ..FailureDetectorConfig::default() },
            marked_for_deletion_grace_period: Duration::from_secs(3600),
            catchup_callback: None,
            extra_liveness_predicate: if case.predicate { Some(Box::new(|ns: &chitchat::NodeState| ns.get("READY") == Some("true"))) } else { None },
        };
        // the server's peer selection is a function of the case (hook: feature `verif`)
        chitchat::verif::verif_set_server_seed(Some(str_hash(&format!("{case:?}"))));
        let spawned = spawn_chitchat(config, vec![("READY".to_string(), "true".to_string())], &transport).await;
        chitchat::verif::verif_set_server_seed(None);
        let handle = match spawned {
            Ok(h) => h,
            Err(e) => return vio("C17/spawn-failed", format!("{e:#}")),
        };
        {
            let mut sh = shared.lock().unwrap();
            for (i, p) in peer_ids.iter().enumerate() {
                if (case.failing_peers >> i) & 1 == 1 {
                    sh.fail_addrs.insert(p.to_real().gossip_advertise_addr);
                }
            }
        }
        let mut known: std::collections::HashSet<SocketAddr> = peer_ids.iter().map(|p| p.to_real().gossip_advertise_addr).chain(seeds.iter().filter_map(|s| s.parse().ok())).collect();
        if case.hostname_seed {
            known.insert("127.0.0.1:9300".parse().unwrap());
            known.insert("[::1]:9300".parse().unwrap());
        }
        // With a host-name seed the server stays isolated for the whole run, which lasts well past
        // the first DNS refresh.
        let n_live = if case.hostname_seed { 0 } else { (case.live as usize).min(n_peers) };
        let n_rounds = if case.hostname_seed { 62 + 110 } else { (case.rounds % 14 + 3) as u64 };
        let mut literal_seed_after_refresh = 0u32;
        if case.lock_at_ticks && !case.hostname_seed {
            // shift the observation windows by 10 ms so that the ticks (every interval from the
            // spawn) fall inside the 20 ms during which the lock is held
            tokio::time::sleep(Duration::from_millis(10)).await;
        }
        for round in 0..n_rounds {
            // digest from peer 0: all peers, the first n_live with increasing heartbeats
            if n_peers > 0 {
                let digest: Vec<WNodeDigest> = peer_ids.iter().enumerate().map(|(i, p)| WNodeDigest { id: p.clone(), heartbeat: if i < n_live { 10 + round } else { 10 }, last_gc: 0, max_version: 0 }).collect();
                let mut d = digest;
                sort_digest_real_order(&mut d);
                let (bytes, _) = encode_msg(&WMsg::Syn { cluster_id: "c".into(), digest: d }, Blocking::Canonical);
                let _ = tx.send(RecvItem::Msg(peer_ids[0].to_real().gossip_advertise_addr, real_decode(&bytes).expect("decodes").0));
            }
            if case.foreign_from_dead {
                let (bytes, _) = encode_msg(&WMsg::Syn { cluster_id: "another-cluster".into(), digest: vec![] }, Blocking::Canonical);
                for p in &peer_ids[n_live..] {
                    let _ = tx.send(RecvItem::Msg(p.to_real().gossip_advertise_addr, real_decode(&bytes).expect("decodes").0));
                }
            }
            let before = shared.lock().unwrap().sent.len();
            if case.lock_at_ticks && !case.hostname_seed {
                tokio::time::sleep(interval - Duration::from_millis(21)).await;
                let chitchat = handle.chitchat();
                let held = chitchat.lock().await;
                tokio::time::sleep(Duration::from_millis(20)).await;
                drop(held);
                tokio::time::sleep(Duration::from_millis(1)).await;
            } else {
                tokio::time::sleep(interval).await;
            }
            let sent: Vec<(SocketAddr, &'static str, bool)> = shared.lock().unwrap().sent[before..].to_vec();
            let syns: Vec<SocketAddr> = sent.iter().filter(|(_, k, _)| *k == "SYN").map(|(a, _, _)| *a).collect();
            if syns.len() > 5 {
                return vio("C17/server-too-many-targets", format!("round {round}: {} SYNs emitted in one gossip round (> 3 peers + 1 dead + 1 seed): {syns:?}", syns.len()));
            }
            for a in &syns {
                if *a == own_addr {
                    return vio("C17/server-gossips-to-itself", format!("round {round}: the server sent a SYN to its own address {own_addr} (seeds {seeds:?})"));
                }
                if !known.contains(a) {
                    return vio("C17/server-unknown-target", format!("round {round}: SYN to {a}, which is neither a known peer nor a seed"));
                }
            }
            if round >= 62 && syns.contains(&foreign_seed) {
                literal_seed_after_refresh += 1;
            }
            // At most one dead peer per round once a live peer is known (the regular targets are
            // then drawn from the live peers only). Peer 0 may double as a seed.
            if n_live >= 1 && round >= 5 {
                let dead_hit = syns.iter().filter(|a| peer_ids[n_live..].iter().any(|p| p.to_real().gossip_advertise_addr == **a)).count();
                if dead_hit > 1 {
                    return vio("C17/server-several-dead-targets", format!("round {round}: {n_live} live peers are known, yet {dead_hit} dead peers were contacted in one round: {syns:?} (application liveness predicate configured: {})", case.predicate));
                }
            }
            // the seed set without the server's own address: foreign literal seed, peer 0, host name
            let some_seed = case.seeds & 1 != 0 || (case.seeds & 4 != 0 && n_peers > 0) || case.hostname_seed;
            let seed_hit = (case.seeds & 1 != 0 && syns.contains(&foreign_seed)) || (case.seeds & 4 != 0 && syns.iter().any(|a| a.port() == 9200)) || (case.hostname_seed && syns.iter().any(|a| a.port() == 9300));
            if round >= 1 && n_live == 0 && some_seed && !seed_hit {
                return vio("C17/server-isolated-no-seed", format!("round {round}: no live peer and a seed exists, yet the round's SYNs {syns:?} reach no seed"));
            }
            // Dead peers outnumbering live ones must be probed, also once they are scheduled for
            // deletion (they stay in the dead set until the full grace period has passed).
            let dead_addrs: Vec<SocketAddr> = peer_ids[n_live..].iter().map(|p| p.to_real().gossip_advertise_addr).collect();
            if n_live >= 1 && dead_addrs.len() > n_live && (5..18).contains(&round) && !syns.iter().any(|a| dead_addrs.contains(a)) {
                return vio("C17/server-no-dead-probe", format!("round {round}: {} dead peers outnumber {n_live} live ones but the round's SYNs {syns:?} reach no dead peer", dead_addrs.len()));
            }
            if round >= 11 && n_live >= 1 && dead_addrs.len() > n_live {
                tally.label("dead_peers_scheduled_for_deletion_still_probed");
            }
            tally.sum("rounds_observed", 1);
        }
        // The round must end with a liveness evaluation whatever the sends did (C10 / C12 at the
        // server level): after >= 5 rounds every heartbeating peer is live, every silent one is
        // not live, and (before the 20 s grace period is over) is in the dead set.
        if n_rounds >= 5 && n_peers > 0 && !case.hostname_seed {
            let peers_real: Vec<chitchat::ChitchatId> = peer_ids.iter().map(|p| p.to_real()).collect();
            let (live, dead): (Vec<chitchat::ChitchatId>, Vec<chitchat::ChitchatId>) = handle.with_chitchat(|c| (c.live_nodes().cloned().collect(), c.dead_nodes().cloned().collect())).await;
            for (i, p) in peers_real.iter().enumerate() {
                let (is_live, is_dead) = (live.contains(p), dead.contains(p));
                if i < n_live && !is_live {
                    return vio("C10/server-liveness-not-evaluated", format!("after {n_rounds} gossip rounds peer {i} (a fresh heartbeat every second) is live={is_live} dead={is_dead} at the server (sends failing to peers {:#b})", case.failing_peers));
                }
                if i >= n_live && (is_live || (n_rounds < 19 && !is_dead)) {
                    return vio("C10/server-liveness-not-evaluated", format!("after {n_rounds} gossip rounds peer {i} (one heartbeat observation only) is live={is_live} dead={is_dead} at the server (sends failing to peers {:#b})", case.failing_peers));
                }
            }
            if case.failing_peers != 0 {
                tally.label("liveness_checked_with_failing_sends");
            }
        }
        let _ = tokio::time::timeout(STALL, handle.shutdown()).await;
        if case.hostname_seed && case.seeds & 1 != 0 {
            // 110 isolated rounds after the refresh, one seed drawn uniformly from at most 4 per
            // round: the literal seed is missed by chance with probability < (3/4)^110 ~ 2e-14.
            if literal_seed_after_refresh == 0 {
                return vio("C17/server-literal-seed-lost-after-dns-refresh", format!("isolated server with seeds {seeds:?}: in the 110 rounds after the first DNS refresh (60 s) the literal seed {foreign_seed} was not contacted a single time"));
            }
            tally.label("ran_past_dns_refresh");
        }
        if case.predicate && n_live >= 1 {
            tally.label("liveness_predicate_no_peer_ready");
        }
        if case.wildcard_listen && case.seeds & 2 != 0 {
            tally.label("wildcard_listen_own_address_among_seeds");
        }
        if case.foreign_from_dead && n_live < n_peers {
            tally.label("foreign_syns_from_dead_peers_addresses");
        }
        if case.lock_at_ticks {
            tally.label("state_lock_held_across_every_tick");
        }
        if case.seeds & 5 == 4 && n_live == 0 && n_peers >= 4 {
            tally.label("only_seed_is_a_dead_peer");
        }
        if case.seeds & 2 != 0 || n_live == 0 {
            tally.nontrivial(str_hash(&format!("{case:?}")));
            tally.sample(|| serde_json::to_value(case).unwrap());
        }
        if case.seeds & 2 != 0 {
            tally.label("own_address_among_seeds");
        }
        Ok(())
    });
    drop(rt);
    result
}

pub fn targets_strategy() -> impl Strategy<Value = TargetsCase> {
    (0u8..13, 0u8..13, 0u8..8, 0u8..16, prop_oneof![2 => Just(0u16), 1 => any::<u16>()], proptest::bool::weighted(0.3), proptest::bool::weighted(0.04), proptest::bool::weighted(0.3), (proptest::bool::weighted(0.25), proptest::bool::weighted(0.2)))
        .prop_map(|(peers, live, seeds, rounds, failing_peers, predicate, hostname_seed, wildcard_listen, (foreign_from_dead, lock_at_ticks))| TargetsCase { peers, live, seeds, rounds, failing_peers, predicate, hostname_seed, wildcard_listen, foreign_from_dead, lock_at_ticks })
}

pub fn run_targets(ctx: &Ctx, report: &mut Report) {
    report.push(run_proptest(ctx, "server-round-targets", ctx.cases(6_000, 200_000), 300, targets_strategy, exec_targets));
}

pub fn replay_targets(ctx: &Ctx, sub: &str, case: &serde_json::Value) -> SubResult {
    replay_case::<TargetsCase, _>(ctx, sub, case, exec_targets)
}
