//! C08: wire round-trip in both directions against the independent codec.

use chitchat::verif::verif_describe;
use chitchat::{ChitchatMessage, Serializable};
use proptest::prelude::*;
use serde::{Deserialize, Serialize};
use serde_json::json;

use crate::common::*;
use crate::mtu::{build_peer_digest, digest_spec_strategy, DigestEntrySpec};
use crate::statebuild::*;
use crate::util::*;
use crate::wire::*;

pub const LEN_CLASSES: [usize; 12] = [0, 1, 2, 7, 30, 255, 256, 300, 16_383, 16_384, 16_385, 65_535];

#[derive(Clone, Debug, Serialize, Deserialize)]
pub struct StrSpec {
    pub len_class: u8,
    pub content: u8,
    pub seed: u16,
}

impl StrSpec {
    pub fn expand(&self) -> String {
        let len = LEN_CLASSES[self.len_class as usize % LEN_CLASSES.len()];
        expand_value(1 + self.content % 4, len, self.seed as u64)
    }
    pub fn is_boundary(&self) -> bool {
        LEN_CLASSES[self.len_class as usize % LEN_CLASSES.len()] >= 255 || self.len_class == 0
    }
}

pub fn u64_class(c: u8, raw: u32) -> u64 {
    match c % 8 {
        0 => 0,
        1 => raw as u64 % 100,
        2 => raw as u64,
        3 => u32::MAX as u64 + raw as u64 % 3,
        4 => u64::MAX - (raw as u64 % 3),
        5 => 1u64 << (raw % 64),
        6 => 255 + raw as u64 % 3,
        _ => 65_535 + raw as u64 % 3,
    }
}

#[derive(Clone, Debug, Serialize, Deserialize)]
pub struct IdSpec {
    pub node_id: StrSpec,
    pub generation: (u8, u32),
    pub ipv6: bool,
    pub ip_seed: u32,
    pub port: u16,
}

impl IdSpec {
    pub fn expand(&self, uniq: usize) -> WId {
        let mut node_id = self.node_id.expand();
        // Make ids distinct without disturbing the length class: overwrite leading ASCII bytes.
        if node_id.len() >= 6 && node_id.is_char_boundary(6) && node_id.as_bytes()[..6].iter().all(|b| b.is_ascii()) {
            node_id.replace_range(0..6, &format!("{uniq:06}"));
        }
        let s = splitmix64(self.ip_seed as u64);
        WId {
            node_id,
            generation: u64_class(self.generation.0, self.generation.1),
            ip: if self.ipv6 {
                let mut o = [0u8; 16];
                o[..8].copy_from_slice(&s.to_le_bytes());
                o[8..].copy_from_slice(&splitmix64(s).to_le_bytes());
                // Special forms a decoder might be tempted to normalise.
                match self.ip_seed % 8 {
                    0 => {
                        // IPv4-mapped ::ffff:a.b.c.d
                        o[..10].fill(0);
                        o[10] = 0xff;
                        o[11] = 0xff;
                    }
                    1 => o[..12].fill(0), // IPv4-compatible ::a.b.c.d
                    2 => {
                        o.fill(0);
                        o[15] = (self.ip_seed >> 8) as u8 & 1; // :: or ::1
                    }
                    3 => {
                        // NAT64 64:ff9b::a.b.c.d
                        o[..12].copy_from_slice(&[0, 0x64, 0xff, 0x9b, 0, 0, 0, 0, 0, 0, 0, 0]);
                    }
                    _ => {}
                }
                WIp::V6(o)
            } else {
                match self.ip_seed % 8 {
                    0 => WIp::V4([0, 0, 0, 0]),
                    1 => WIp::V4([255, 255, 255, 255]),
                    2 => WIp::V4([127, 0, 0, 1]),
                    _ => WIp::V4((s as u32).to_le_bytes()),
                }
            },
            // distinct ports keep short ids distinct
            port: self.port.wrapping_add(uniq as u16),
        }
    }
}

#[derive(Clone, Debug, Serialize, Deserialize)]
pub struct KvSpec {
    pub key: StrSpec,
    pub val: Val,
    pub status: u8,
    pub gap: (u8, u32),
}

#[derive(Clone, Debug, Serialize, Deserialize)]
pub struct NodeDeltaSpec {
    pub id: IdSpec,
    pub gc: (u8, u32),
    pub from: (u8, u32),
    pub kvs: Vec<KvSpec>,
    pub set_max: Option<(u8, u32)>,
}

#[derive(Clone, Debug, Serialize, Deserialize)]
pub struct WireCase {
    /// 0 Syn, 1 SynAck, 2 Ack, 3 BadCluster
    pub kind: u8,
    pub cluster_id: StrSpec,
    pub digest: Vec<(IdSpec, (u8, u32), (u8, u32), (u8, u32))>,
    /// Additional auto-generated digest members (large digests).
    pub bulk_digest: u16,
    pub deltas: Vec<NodeDeltaSpec>,
    pub blocking: Blocking,
    /// The second digest entry (and the second delta member) reuse the node id and generation of
    /// the first one with a different address: distinct ids that only differ by address.
    #[serde(default)]
    pub twin_ids: bool,
    /// The third digest entry (and the third delta member) reuse the generation and the address of
    /// the first one with a different node id: distinct ids that only differ by node id.
    #[serde(default)]
    pub twin_by_name: bool,
}

/// Makes a node id different from what it was without exceeding the 65,535-byte limit of a
/// string on the wire (a maximum-length id gets its last character replaced, not one appended).
fn differ_by_one_char(node_id: &mut String) {
    if node_id.len() >= 65_535 {
        let last = node_id.pop();
        node_id.push(if last == Some('x') { 'y' } else { 'x' });
    } else {
        node_id.push('x');
    }
}

pub fn model_of(case: &WireCase) -> WMsg {
    let mut uniq = 0usize;
    let mut digest: Vec<WNodeDigest> = Vec::new();
    for (id, hb, gc, max) in &case.digest {
        uniq += 1;
        digest.push(WNodeDigest { id: id.expand(uniq), heartbeat: u64_class(hb.0, hb.1), last_gc: u64_class(gc.0, gc.1), max_version: u64_class(max.0, max.1) });
    }
    for i in 0..case.bulk_digest {
        uniq += 1;
        let mut id = WId::v4(&format!("bulk-{i}"), i as u64, 1);
        id.port = 30_000u16.wrapping_add(uniq as u16);
        if i % 3 == 0 {
            id.ip = WIp::V6([i as u8; 16]);
        }
        digest.push(WNodeDigest { id, heartbeat: i as u64 * 7, last_gc: i as u64 / 2, max_version: i as u64 });
    }
    if case.twin_ids && digest.len() >= 2 {
        let first = digest[0].id.clone();
        digest[1].id.node_id = first.node_id;
        digest[1].id.generation = first.generation;
        if digest[1].id.ip == first.ip && digest[1].id.port == first.port {
            digest[1].id.port = first.port.wrapping_add(1);
        }
    }
    if case.twin_by_name && digest.len() >= 3 {
        let first = digest[0].id.clone();
        let t = &mut digest[2].id;
        t.generation = first.generation;
        t.ip = first.ip.clone();
        t.port = first.port;
        if t.node_id == first.node_id {
            differ_by_one_char(&mut t.node_id);
        }
    }
    let mut deltas: Vec<WNodeDelta> = Vec::new();
    for d in &case.deltas {
        uniq += 1;
        let mut kvs = Vec::new();
        let mut version = 0u64;
        for kv in &d.kvs {
            let gap = u64_class(kv.gap.0, kv.gap.1).max(1);
            let Some(v) = version.checked_add(gap) else { break };
            version = v;
            let status = kv.status % 3;
            kvs.push(WKv { key: kv.key.expand(), value: if status == 1 { String::new() } else { kv.val.expand() }, version, status });
        }
        let max_version = if kvs.is_empty() { d.set_max.map(|m| u64_class(m.0, m.1)).unwrap_or(0) } else { version };
        deltas.push(WNodeDelta { id: d.id.expand(uniq), last_gc: u64_class(d.gc.0, d.gc.1), from_version: u64_class(d.from.0, d.from.1), kvs, max_version });
    }
    if case.twin_ids && deltas.len() >= 2 {
        let first = deltas[0].id.clone();
        deltas[1].id.node_id = first.node_id;
        deltas[1].id.generation = first.generation;
        if deltas[1].id.ip == first.ip && deltas[1].id.port == first.port {
            deltas[1].id.port = first.port.wrapping_add(1);
        }
    }
    if case.twin_by_name && deltas.len() >= 3 {
        let first = deltas[0].id.clone();
        let t = &mut deltas[2].id;
        t.generation = first.generation;
        t.ip = first.ip.clone();
        t.port = first.port;
        if t.node_id == first.node_id {
            differ_by_one_char(&mut t.node_id);
        }
    }
    match case.kind % 4 {
        0 => WMsg::Syn { cluster_id: case.cluster_id.expand(), digest },
        1 => WMsg::SynAck { digest, ops: ungroup(&deltas) },
        2 => WMsg::Ack { ops: ungroup(&deltas) },
        _ => WMsg::BadCluster,
    }
}

fn vio<T>(sig: &str, msg: String) -> Result<T, Failure> {
    Err(Failure::new(sig, msg))
}

fn short(m: &NMsg) -> String {
    let s = format!("{m:?}");
    s.chars().take(400).collect()
}

pub fn exec_model_to_real(case: &WireCase, tally: &mut Tally) -> Result<(), Failure> {
    let mut model = model_of(case);
    let canonical = matches!(case.blocking, Blocking::Canonical);
    if canonical {
        match &mut model {
            WMsg::Syn { digest, .. } | WMsg::SynAck { digest, .. } => sort_digest_real_order(digest),
            _ => {}
        }
    }
    // A digest is a map: two entries with the same id are not something an encoder can emit (the
    // generator makes ids distinct through their ports, which can collide by wrap-around).
    if let WMsg::Syn { digest, .. } | WMsg::SynAck { digest, .. } = &model {
        let mut seen = std::collections::HashSet::new();
        if !digest.iter().all(|d| seen.insert(d.id.clone())) {
            tally.discard("generator produced a digest with a repeated id");
            return Ok(());
        }
    }
    let (bytes, stats) = encode_msg(&model, case.blocking);
    let expected = match normalise_model(&model) {
        Ok(n) => n,
        Err(e) => {
            tally.discard(&format!("generator produced a non-honest stream: {e}"));
            return Ok(());
        }
    };
    // The decoder must not depend on what it decoded before: on the same thread, first hand it
    // damaged variants of this message (cut inside the operation stream, one byte changed in the
    // second half), whatever it makes of them, then the intact bytes.
    let after_damaged = bytes.len() > 16 && fnv64(&bytes) % 3 == 0;
    if after_damaged {
        let h = fnv64(&bytes) as usize;
        for cut in [1usize, 2, 1 + (h >> 8) % (bytes.len() / 2)] {
            let _ = guard(|| real_decode(&bytes[..bytes.len() - cut]).map(|_| ()));
        }
        let mut flipped = bytes.clone();
        let pos = bytes.len() / 2 + (h >> 20) % (bytes.len() / 2);
        flipped[pos] ^= 0x55;
        let _ = guard(|| real_decode(&flipped).map(|_| ()));
        tally.label("decoded_after_damaged_variants");
    }
    let (msg, rest): (ChitchatMessage, usize) = match guard(|| real_decode(&bytes)) {
        Ok(Ok(r)) => r,
        Ok(Err(e)) => return vio("C08/decode-rejected", format!("real decoder rejects an honest {} byte message{}: {e}; model {}", bytes.len(), if after_damaged { " (decoded right after damaged variants of it on the same thread)" } else { "" }, short(&expected))),
        Err(p) => return vio(&format!("C08/{}", p.signature()), format!("real decoder panicked: {}", p.describe())),
    };
    if rest != 0 {
        return vio("C08/trailing-bytes", format!("real decoder left {rest} of {} bytes unread", bytes.len()));
    }
    let got = normalise_verif(&verif_describe(&msg));
    if got != expected {
        return vio("C08/decode-mismatch", format!("decoded message differs from the model: got {} expected {}", short(&got), short(&expected)));
    }
    if msg.serialized_len() != bytes.len() {
        return vio("C08/announced-length", format!("decoded message announces {} bytes, input was {}", msg.serialized_len(), bytes.len()));
    }
    let ops_small = match &model {
        WMsg::SynAck { ops, .. } | WMsg::Ack { ops } => ops.iter().all(|op| op_len(op) <= 65_535),
        _ => true,
    };
    // (Only for canonically blocked input: a message decoded from differently blocked bytes
    // remembers the length it was decoded from and is never re-serialized by a node.)
    if ops_small && canonical {
        // The real encoder's output for the decoded message must be decoded identically by the
        // independent decoder and have the announced length. (Byte-for-byte equality with the
        // independent canonical encoder is recorded, not required: block size and compression
        // level are not part of the stated layout.)
        match guard(|| real_encode(&msg)) {
            Ok(out) => {
                if canonical && out == bytes {
                    tally.label("canonical_bytes_equal");
                }
                if canonical && out.len() != msg.serialized_len() {
                    return vio("C08/announced-length", format!("re-encoding a decoded message wrote {} bytes but announces {}", out.len(), msg.serialized_len()));
                }
                if canonical {
                    match decode_msg(&out).and_then(|d| if d.consumed == out.len() { normalise_model(&d.msg) } else { Err("trailing bytes".into()) }) {
                        Ok(n) if n == expected => {}
                        Ok(n) => return vio("C08/reencode-decodes-differently", format!("the real encoder's output decodes (independently) to {} instead of {}", short(&n), short(&expected))),
                        Err(e) => return vio("C08/reencode-undecodable", format!("the independent decoder rejects the real encoder's output: {e}")),
                    }
                }
            }
            Err(p) => {
                if canonical {
                    return vio(&format!("C08/{}", p.signature()), format!("real encoder panicked on a decoded message: {}", p.describe()));
                }
            }
        }
    }
    let ipv6 = bytes.len() > 0
        && match &model {
            WMsg::Syn { digest, .. } => digest.iter().any(|d| matches!(d.id.ip, WIp::V6(_))),
            WMsg::SynAck { digest, ops } => digest.iter().any(|d| matches!(d.id.ip, WIp::V6(_))) || ops.iter().any(|o| matches!(o, WOp::Node { id, .. } if matches!(id.ip, WIp::V6(_)))),
            WMsg::Ack { ops } => ops.iter().any(|o| matches!(o, WOp::Node { id, .. } if matches!(id.ip, WIp::V6(_)))),
            WMsg::BadCluster => false,
        };
    let boundary = case.cluster_id.is_boundary() && case.kind % 4 == 0
        || case.digest.iter().any(|d| d.0.node_id.is_boundary())
        || case.deltas.iter().any(|d| d.id.node_id.is_boundary() || d.kvs.iter().any(|k| k.key.is_boundary()));
    if stats.blocks >= 2 {
        tally.label("multi_block");
    }
    if stats.raw_blocks > 0 {
        tally.label("raw_block");
    }
    if stats.compressed_blocks > 0 {
        tally.label("compressed_block");
    }
    if ipv6 {
        tally.label("ipv6");
    }
    if boundary {
        tally.label("boundary_string");
    }
    tally.max("message_len", bytes.len() as u64);
    if stats.blocks >= 2 || stats.raw_blocks > 0 || ipv6 || boundary {
        tally.nontrivial(fnv64(&bytes));
        tally.sample(|| json!({"direction": "model->real", "kind": case.kind % 4, "bytes": bytes.len(), "blocks": stats.blocks, "raw_blocks": stats.raw_blocks, "digest_members": case.digest.len() + case.bulk_digest as usize, "deltas": case.deltas.iter().map(|d| d.kvs.len()).collect::<Vec<_>>(), "blocking": format!("{:?}", case.blocking)}));
    }
    Ok(())
}

/// Oracle for a message emitted by a real node.
pub fn check_emitted(msg: &ChitchatMessage, tally: &mut Tally, what: &str) -> Result<(), Failure> {
    let announced = msg.serialized_len();
    let bytes = match guard(|| real_encode(msg)) {
        Ok(b) => b,
        Err(p) => return vio(&format!("C08/{}", p.signature()), format!("{what}: serialization panicked: {}", p.describe())),
    };
    if announced != bytes.len() {
        return vio("C08/announced-length", format!("{what}: announced {announced} bytes, wrote {}", bytes.len()));
    }
    let (back, rest) = match guard(|| real_decode(&bytes)) {
        Ok(Ok(r)) => r,
        Ok(Err(e)) => return vio("C08/own-output-rejected", format!("{what}: real decoder rejects the real encoder's output: {e}")),
        Err(p) => return vio(&format!("C08/{}", p.signature()), format!("{what}: real decoder panicked: {}", p.describe())),
    };
    if rest != 0 {
        return vio("C08/trailing-bytes", format!("{what}: {rest} bytes left unread"));
    }
    if &back != msg {
        return vio("C08/roundtrip-not-equal", format!("{what}: decoded message is not equal to the emitted one"));
    }
    let decoded = match decode_msg(&bytes) {
        Ok(d) => d,
        Err(e) => return vio("C08/independent-decoder-rejects", format!("{what}: independent decoder rejects the real encoder's output: {e}")),
    };
    if decoded.consumed != bytes.len() {
        return vio("C08/trailing-bytes", format!("{what}: independent decoder left {} bytes", bytes.len() - decoded.consumed));
    }
    let mine = match normalise_model(&decoded.msg) {
        Ok(n) => n,
        Err(e) => return vio("C08/emitted-stream-not-honest", format!("{what}: op stream of an emitted message is malformed: {e}")),
    };
    let theirs = normalise_verif(&verif_describe(msg));
    if mine != theirs {
        return vio("C08/independent-decode-mismatch", format!("{what}: independent decoder yields {} but the node emitted {}", short(&mine), short(&theirs)));
    }
    // Re-encode canonically from the independently decoded model: must give the same bytes.
    let (again, _) = encode_msg(&decoded.msg, Blocking::Canonical);
    if again == bytes {
        tally.label("emitted_bytes_equal_independent_canonical_encoding");
    }
    tally.label("emitted_message");
    tally.max("emitted_len", bytes.len() as u64);
    if decoded.stats.blocks >= 2 {
        tally.label("emitted_multi_block");
    }
    if decoded.stats.raw_blocks > 0 {
        tally.label("emitted_raw_block");
    }
    if decoded.stats.blocks >= 2 || decoded.stats.raw_blocks > 0 {
        tally.nontrivial(fnv64(&bytes));
        tally.sample(|| json!({"direction": "real->model", "what": what, "bytes": bytes.len(), "blocks": decoded.stats.blocks, "raw_blocks": decoded.stats.raw_blocks}));
    }
    Ok(())
}

#[derive(Clone, Debug, Serialize, Deserialize)]
pub struct EmitCase {
    pub state: StateSpec,
    pub digest: Vec<DigestEntrySpec>,
    pub unknown_members: u8,
}

pub fn exec_real_to_model(case: &EmitCase, tally: &mut Tally) -> Result<(), Failure> {
    with_paused_runtime(async {
        let fd = FdCfg::default();
        let built = match build_state(&case.state, &fd).await {
            Ok(b) => b,
            Err(e) => {
                tally.discard(&format!("setup: {}", e.chars().take(60).collect::<String>()));
                return Ok(());
            }
        };
        let mut node = built.node;
        let copies = all_copies(&node);
        let mut digest = build_peer_digest(&copies, &case.digest, case.unknown_members);
        sort_digest_real_order(&mut digest);
        let syn_out = match guard(|| node.verif_create_syn_message()) {
            Ok(m) => m,
            Err(p) => return vio(&format!("C08/{}", p.signature()), p.describe()),
        };
        check_emitted(&syn_out, tally, "SYN")?;
        let (b1, _) = encode_msg(&WMsg::Syn { cluster_id: "cluster".into(), digest: digest.clone() }, Blocking::Canonical);
        let (m1, _) = real_decode(&b1).map_err(|e| Failure::new("C08/decode-rejected", e))?;
        if let Ok(Some(reply)) = guard(|| node.verif_process_message(m1)) {
            check_emitted(&reply, tally, "SYN-ACK")?;
        }
        let (b2, _) = encode_msg(&WMsg::SynAck { digest, ops: vec![] }, Blocking::Canonical);
        let (m2, _) = real_decode(&b2).map_err(|e| Failure::new("C08/decode-rejected", e))?;
        if let Ok(Some(reply)) = guard(|| node.verif_process_message(m2)) {
            check_emitted(&reply, tally, "ACK")?;
        }
        let (b3, _) = encode_msg(&WMsg::Syn { cluster_id: "other".into(), digest: vec![] }, Blocking::Canonical);
        let (m3, _) = real_decode(&b3).map_err(|e| Failure::new("C08/decode-rejected", e))?;
        if let Ok(Some(reply)) = guard(|| node.verif_process_message(m3)) {
            check_emitted(&reply, tally, "BAD-CLUSTER")?;
        }
        Ok(())
    })
}

// ------------------------------------------------------------------------------------------

fn str_spec(big: bool) -> impl Strategy<Value = StrSpec> {
    let classes = if big { prop_oneof![20 => 0u8..8, 3 => 8u8..11, 1 => Just(11u8)].boxed() } else { (0u8..8).boxed() };
    (classes, 0u8..4, any::<u16>()).prop_map(|(len_class, content, seed)| StrSpec { len_class, content, seed })
}

fn u64_spec() -> impl Strategy<Value = (u8, u32)> {
    (0u8..8, any::<u32>())
}

fn id_spec() -> impl Strategy<Value = IdSpec> {
    (str_spec(true), u64_spec(), any::<bool>(), any::<u32>(), any::<u16>()).prop_map(|(node_id, generation, ipv6, ip_seed, port)| IdSpec { node_id, generation, ipv6, ip_seed, port })
}

fn kv_spec() -> impl Strategy<Value = KvSpec> {
    (str_spec(true), val_strategy(65_000), 0u8..3, prop_oneof![6 => (Just(1u8), 0u32..4), 1 => u64_spec()]).prop_map(|(key, val, status, gap)| KvSpec { key, val, status, gap })
}

fn blocking_strategy() -> impl Strategy<Value = Blocking> {
    prop_oneof![
        6 => Just(Blocking::Canonical),
        1 => (1usize..70_000).prop_map(Blocking::Raw),
        1 => (1usize..70_000).prop_map(Blocking::Compressed),
        1 => (1usize..70_000).prop_map(Blocking::Mixed),
        1 => (1usize..400).prop_map(Blocking::Mixed),
        1 => (1usize..70_000).prop_map(Blocking::CompressedStream),
        1 => prop_oneof![Just(1usize), Just(2usize), 1usize..64, 1usize..70_000].prop_map(Blocking::RawFlushEmpty),
    ]
}

/// One member with 100..400 key-values of 20..60 KB of highly compressible content: the op stream
/// is several megabytes, the message a few kilobytes (what a real node emits for a large, repetitive
/// state).
fn bulky_case_strategy() -> impl Strategy<Value = WireCase> {
    (id_spec(), proptest::collection::vec((20_000u32..60_000, any::<u16>()), 100..400), prop_oneof![Just(1u8), Just(2u8)]).prop_map(|(id, vals, kind)| WireCase {
        kind,
        cluster_id: StrSpec { len_class: 1, content: 0, seed: 0 },
        digest: vec![],
        bulk_digest: 0,
        deltas: vec![NodeDeltaSpec {
            id,
            gc: (0, 0),
            from: (0, 0),
            kvs: vals.into_iter().enumerate().map(|(i, (len, seed))| KvSpec { key: StrSpec { len_class: 4, content: 2, seed: i as u16 }, val: Val { class: 1, len, seed }, status: 0, gap: (1, 0) }).collect(),
            set_max: None,
        }],
        blocking: Blocking::Canonical,
        twin_ids: false,
        twin_by_name: false,
    })
}

pub fn wire_case_strategy() -> BoxedStrategy<WireCase> {
    prop_oneof![60 => wire_case_strategy_general(), 1 => bulky_case_strategy()].boxed()
}

fn wire_case_strategy_general() -> impl Strategy<Value = WireCase> {
    (
        prop_oneof![3 => Just(0u8), 4 => Just(1u8), 4 => Just(2u8), 1 => Just(3u8)],
        str_spec(true),
        proptest::collection::vec((id_spec(), u64_spec(), u64_spec(), u64_spec()), 0..6),
        prop_oneof![8 => Just(0u16), 2 => 1u16..200, 1 => 200u16..2000],
        proptest::collection::vec((id_spec(), u64_spec(), u64_spec(), proptest::collection::vec(kv_spec(), 0..8), proptest::option::of(u64_spec())), 0..5),
        blocking_strategy(),
        (prop_oneof![4 => Just(false), 1 => Just(true)], prop_oneof![3 => Just(false), 1 => Just(true)]),
    )
        .prop_map(|(kind, cluster_id, digest, bulk_digest, deltas, blocking, (twin_ids, twin_by_name))| WireCase {
            kind,
            cluster_id,
            digest,
            bulk_digest,
            deltas: deltas.into_iter().map(|(id, gc, from, kvs, set_max)| NodeDeltaSpec { id, gc, from, kvs, set_max }).collect(),
            blocking,
            twin_ids,
            twin_by_name,
        })
}

pub fn emit_case_strategy() -> impl Strategy<Value = EmitCase> {
    (state_strategy(), proptest::collection::vec(digest_spec_strategy(), 0..6), 0u8..3).prop_map(|(state, digest, unknown_members)| EmitCase { state, digest, unknown_members })
}

pub fn run(ctx: &Ctx, report: &mut Report) {
    report.push(run_proptest(ctx, "model-to-real", ctx.cases(20_000, 600_000), 500, wire_case_strategy, exec_model_to_real));
    report.push(run_proptest(ctx, "real-to-model", ctx.cases(3_000, 80_000), 300, emit_case_strategy, exec_real_to_model));
}

pub fn replay(ctx: &Ctx, sub: &str, case: &serde_json::Value) -> SubResult {
    match sub {
        "real-to-model" => replay_case::<EmitCase, _>(ctx, sub, case, exec_real_to_model),
        _ => replay_case::<WireCase, _>(ctx, sub, case, exec_model_to_real),
    }
}
