//! Engine E2: small-scope (sender copy, receiver copy) and (copy, delta) pairs.
//! C14 (sender/receiver agreement), C04(b) (frontier monotonicity on arbitrary honest-form
//! deltas), C20(b) (catch-up callback on multi-member deltas).

use std::collections::BTreeMap;
use std::future::Future;
use std::sync::atomic::Ordering;
use std::time::Duration;

use chitchat::{Chitchat, ChitchatId};
use proptest::prelude::*;
use serde::{Deserialize, Serialize};
use serde_json::json;

use crate::common::*;
use crate::util::*;
use crate::wire::*;

#[derive(Clone, Debug, PartialEq, Eq, Serialize, Deserialize)]
pub struct EntryS {
    pub key: u8,
    pub version: u64,
    pub status: u8,
}

#[derive(Clone, Debug, PartialEq, Eq, Serialize, Deserialize)]
pub struct CopySpec {
    pub gc: u64,
    pub max: u64,
    /// version-ascending
    pub entries: Vec<EntryS>,
}

pub const PKEYS: [&str; 4] = ["ka", "kb", "kc", "kd"];

fn value_for(key: u8, version: u64, status: u8) -> String {
    if status == 1 {
        String::new()
    } else {
        // 70 bytes so that budgets of 100..400 bytes cut a delta at every key boundary.
        format!("{}-{:03}-{}", PKEYS[key as usize % 4], version, "x".repeat(60))
    }
}

fn kv_of(e: &EntryS) -> WKv {
    WKv { key: PKEYS[e.key as usize % 4].to_string(), value: value_for(e.key, e.version, e.status), version: e.version, status: e.status }
}

pub fn member_x() -> WId {
    WId::v4("x", 0, 7500)
}

fn fresh_node(name: &str, port: u16, callback: bool) -> NodeBuild {
    let id = simple_id(name, 0, port);
    build_node(&id, "c", Duration::from_secs(3600), &FdCfg::default(), callback, 0)
}

fn feed(node: &mut Chitchat, msg: &WMsg) -> Result<Option<chitchat::ChitchatMessage>, String> {
    let (bytes, _) = encode_msg(msg, Blocking::Canonical);
    let (m, rest) = real_decode(&bytes)?;
    if rest != 0 {
        return Err("trailing bytes".into());
    }
    Ok(node.verif_process_message(m))
}

/// Installs a copy of member `id` on `node` through honest-form messages; verifies the result.
pub fn install_copy(node: &mut Chitchat, id: &WId, spec: &CopySpec, heartbeat: u64) -> Result<(), String> {
    feed(node, &WMsg::Syn { cluster_id: "c".into(), digest: vec![WNodeDigest { id: id.clone(), heartbeat, last_gc: 0, max_version: 0 }] })?;
    let mut ops = vec![WOp::Node { id: id.clone(), last_gc: spec.gc, from_version: 0 }];
    for e in &spec.entries {
        ops.push(WOp::Kv(kv_of(e)));
    }
    let last = spec.entries.last().map(|e| e.version).unwrap_or(0);
    if spec.entries.is_empty() && spec.max > 0 {
        ops.push(WOp::SetMax(spec.max));
    }
    feed(node, &WMsg::Ack { ops })?;
    if !spec.entries.is_empty() && spec.max > last {
        feed(node, &WMsg::Ack { ops: vec![WOp::Node { id: id.clone(), last_gc: spec.gc, from_version: last }, WOp::SetMax(spec.max)] })?;
    }
    let ns = node.node_state(&id.to_real()).ok_or("member absent after install")?;
    let got = read_spec(ns);
    if &got != spec {
        return Err(format!("installed copy {:?} != intended {:?}", got, spec));
    }
    Ok(())
}

pub fn read_spec(ns: &chitchat::NodeState) -> CopySpec {
    let mut entries: Vec<EntryS> = ns
        .key_values_including_deleted()
        .map(|(k, vv)| EntryS { key: PKEYS.iter().position(|p| *p == k).unwrap_or(9) as u8, version: vv.version, status: status_code(&vv.status) })
        .collect();
    entries.sort_by_key(|e| e.version);
    CopySpec { gc: ns.last_gc_version(), max: ns.max_version(), entries }
}

/// A copy is well-formed (reachable shape) if entries have distinct keys and versions <= max and
/// deleted/TTL entries lie above the watermark.
pub fn well_formed(c: &CopySpec) -> bool {
    let mut keys = std::collections::HashSet::new();
    let mut last = 0;
    for e in &c.entries {
        if e.version == 0 || e.version <= last || e.version > c.max || !keys.insert(e.key) {
            return false;
        }
        if e.status != 0 && e.version <= c.gc {
            return false;
        }
        last = e.version;
    }
    true
}

#[derive(Clone, Debug, Serialize, Deserialize)]
pub struct PairCase {
    pub sender: CopySpec,
    /// None: the receiver does not know the member.
    pub receiver: Option<CopySpec>,
    /// None: the real SYN-ACK (full budget); Some(b): facade delta under budget b.
    pub budget: Option<u32>,
    /// The member is the receiver itself (e.g. a node restarted under the same id whose peers
    /// still hold its previous state): the receiver's copy is its own namespace.
    #[serde(default)]
    pub self_member: bool,
    /// The sender also holds another member that the receiver has removed after the dead-node
    /// grace period (and remembers): its delta comes first and is ignored by the receiver, which
    /// must still apply the rest.
    #[serde(default)]
    pub receiver_removed_other: bool,
    /// The receiver has run a liveness evaluation: the member (one heartbeat only) is in its dead
    /// set but not yet scheduled for deletion, so it must still be advertised in the digest.
    #[serde(default)]
    pub receiver_evaluated: bool,
}

/// Spec-level apply of a delta on a copy (written from ALGORITHM.md / README).
pub fn reference_apply(copy: &CopySpec, d: &WNodeDelta) -> (CopySpec, bool) {
    let reset = d.from_version == 0 && d.last_gc > copy.gc && d.last_gc > copy.max;
    let mut out = if reset { CopySpec { gc: d.last_gc, max: 0, entries: vec![] } } else { copy.clone() };
    let old_max = out.max;
    let mut map: BTreeMap<u8, EntryS> = out.entries.iter().map(|e| (e.key, e.clone())).collect();
    for kv in &d.kvs {
        if kv.version <= old_max {
            continue;
        }
        if kv.status != 0 && kv.version <= out.gc {
            continue;
        }
        let key = PKEYS.iter().position(|p| *p == kv.key).unwrap_or(9) as u8;
        match map.get(&key) {
            Some(e) if e.version >= kv.version => {}
            _ => {
                map.insert(key, EntryS { key, version: kv.version, status: kv.status });
            }
        }
    }
    out.max = d.max_version.max(out.max);
    out.entries = map.into_values().collect();
    out.entries.sort_by_key(|e| e.version);
    (out, reset)
}

fn vio<T>(sig: &str, msg: String) -> Result<T, Failure> {
    Err(Failure::new(sig, msg))
}

fn extract_delta(reply: &chitchat::ChitchatMessage) -> Result<(Vec<u8>, Vec<WNodeDelta>), Failure> {
    let bytes = match guard(|| real_encode(reply)) {
        Ok(b) => b,
        Err(p) => return vio(&format!("C14/{}", p.signature()), p.describe()),
    };
    let dec = decode_msg(&bytes).map_err(|e| Failure::new("C14/undecodable-reply", e))?;
    let ops = match dec.msg {
        WMsg::SynAck { ops, .. } | WMsg::Ack { ops } => ops,
        _ => return vio("C14/wrong-reply", "reply is neither SYN-ACK nor ACK".into()),
    };
    let deltas = group_ops(&ops).map_err(|e| Failure::new("C14/malformed-delta", e))?;
    Ok((bytes, deltas))
}

pub struct PairFacts {
    pub offered: bool,
    pub reset: bool,
    pub truncated: bool,
    pub set_max_only: bool,
    pub equal_boundary: bool,
}

pub fn exec_pair(case: &PairCase, tally: &mut Tally) -> Result<(), Failure> {
    let facts = exec_pair_inner(case)?;
    if facts.offered {
        tally.nontrivial(str_hash(&format!("{case:?}")));
        tally.label(if facts.reset { "reset_delta" } else { "incremental_delta" });
        if facts.truncated {
            tally.label("truncated_delta");
        }
        if facts.set_max_only {
            tally.label("set_max_version_only");
        }
        if facts.equal_boundary {
            tally.label("equal_boundary");
        }
        if (case.sender.max + case.sender.gc * 3 + case.receiver.as_ref().map(|r| r.max).unwrap_or(9)) % 97 == 5 {
            tally.sample(|| serde_json::to_value(case).unwrap());
        }
    } else {
        tally.label("nothing_offered");
    }
    if case.receiver.is_none() {
        tally.label("receiver_unknown_member");
    }
    if case.self_member {
        tally.label("member_is_the_receiver_itself");
    }
    if case.receiver_removed_other {
        tally.label("receiver_removed_another_member");
    }
    if case.receiver_evaluated {
        tally.label("member_dead_at_receiver_not_scheduled");
    }
    Ok(())
}

fn exec_pair_inner(case: &PairCase) -> Result<PairFacts, Failure> {
    if case.receiver_removed_other {
        return crate::util::with_paused_runtime(async { exec_pair_body(case, true).await });
    }
    // No clock needed: run the body to completion on the spot.
    let fut = exec_pair_body(case, false);
    let mut fut = Box::pin(fut);
    let waker = noop_waker();
    let mut cx = std::task::Context::from_waker(&waker);
    match fut.as_mut().poll(&mut cx) {
        std::task::Poll::Ready(r) => r,
        std::task::Poll::Pending => unreachable!("pair body only awaits when it advances the clock"),
    }
}

fn noop_waker() -> std::task::Waker {
    use std::task::{RawWaker, RawWakerVTable, Waker};
    fn raw() -> RawWaker {
        fn no(_: *const ()) {}
        fn clone(_: *const ()) -> RawWaker {
            raw()
        }
        static VT: RawWakerVTable = RawWakerVTable::new(clone, no, no, no);
        RawWaker::new(std::ptr::null(), &VT)
    }
    unsafe { Waker::from_raw(raw()) }
}

async fn exec_pair_body(case: &PairCase, with_clock: bool) -> Result<PairFacts, Failure> {
    let fd20 = FdCfg { dead_grace_ms: 20_000, ..FdCfg::default() };
    let mut s = build_node(&simple_id("s", 0, 7601), "c", Duration::from_secs(3600), &fd20, false, 0).chitchat;
    let mut r = build_node(&simple_id("r", 0, 7602), "c", Duration::from_secs(3600), &fd20, false, 0).chitchat;
    let x = if case.self_member { WId::from_real(&simple_id("r", 0, 7602)) } else { member_x() };
    let xr = x.to_real();
    if case.receiver_removed_other && with_clock {
        // Member `gone`: known to both; the receiver declares it dead and removes it after the
        // grace period; the sender never evaluates it and keeps advertising it (same heartbeat).
        let gone = WId::v4("gone", 0, 7555);
        let spec = CopySpec { gc: 0, max: 1, entries: vec![EntryS { key: 3, version: 1, status: 0 }] };
        if install_copy(&mut s, &gone, &spec, 5).is_err() || install_copy(&mut r, &gone, &spec, 5).is_err() {
            return vio("C14/setup", "cannot install the extra member".into());
        }
        r.verif_update_nodes_liveness();
        crate::util::advance_ns(20_000 * 1_000_000 + 1).await;
        r.verif_update_nodes_liveness();
        if r.node_state(&gone.to_real()).is_some() {
            return vio("C14/setup", "extra member not removed at the receiver".into());
        }
    }
    if let Err(e) = guard(|| install_copy(&mut s, &x, &case.sender, 5)).map_err(|p| p.describe()).and_then(|r| r) {
        return vio("C14/honest-delta-not-applied", format!("building the sender copy {:?}: {e}", case.sender));
    }
    if let Some(rc) = &case.receiver {
        if let Err(e) = guard(|| install_copy(&mut r, &x, rc, 5)).map_err(|p| p.describe()).and_then(|r| r) {
            return vio("C14/honest-delta-not-applied", format!("building the receiver copy {:?}: {e}", rc));
        }
    }
    let (gc_s, max_s) = (case.sender.gc, case.sender.max);
    let (gc_r, max_r) = case.receiver.as_ref().map(|c| (c.gc, c.max)).unwrap_or((0, 0));
    if case.receiver_evaluated && !case.self_member {
        r.verif_update_nodes_liveness();
    }
    let syn = r.verif_create_syn_message();
    // Sender computes the delta from the receiver's own digest.
    let reply = match case.budget {
        None => match guard(|| s.verif_process_message(syn)) {
            Ok(Some(m)) => m,
            Ok(None) => return vio("C14/no-synack", "no SYN-ACK".into()),
            Err(p) => return vio(&format!("C14/{}", p.signature()), format!("sender panicked: {}", p.describe())),
        },
        Some(b) => match guard(|| s.verif_compute_delta(&syn, (b as usize).max(100))) {
            Ok(Some(m)) => m,
            Ok(None) => return vio("C14/no-delta", "facade returned nothing".into()),
            Err(p) => return vio(&format!("C14/{}", p.signature()), format!("sender panicked: {}", p.describe())),
        },
    };
    let (_bytes, deltas) = extract_delta(&reply)?;
    let dx: Option<&WNodeDelta> = deltas.iter().find(|d| d.id == x);
    let ahead = max_s > max_r;
    let mut facts = PairFacts { offered: false, reset: false, truncated: false, set_max_only: false, equal_boundary: gc_s == max_r || gc_s == gc_r };
    if !ahead {
        if let Some(d) = dx {
            return vio("C14/offered-when-not-ahead", format!("sender ({gc_s},{max_s}) not ahead of receiver ({gc_r},{max_r}) but offered {:?}", d));
        }
        return Ok(facts);
    }
    let Some(d) = dx else {
        if case.budget.is_some() {
            // Under a small budget even the member header may not fit.
            facts.truncated = true;
            return Ok(facts);
        }
        return vio("C14/empty-delta-when-ahead", format!("sender ({gc_s},{max_s}) is ahead of receiver ({gc_r},{max_r}) but offered nothing"));
    };
    facts.offered = true;
    let reset = gc_r < gc_s && max_r < gc_s;
    facts.reset = reset;
    // "It starts from version 0 exactly when both the receiver's max version and watermark lie
    // below the sender's watermark"; an incremental delta may start anywhere at or below the
    // receiver's max version (re-sending known versions is wasteful, not wrong).
    if reset && d.from_version != 0 {
        return vio("C14/wrong-start", format!("sender ({gc_s},{max_s}), receiver ({gc_r},{max_r}): a reset is required but the delta starts at version {}", d.from_version));
    }
    if !reset && ((d.from_version == 0 && max_r != 0) || d.from_version > max_r) {
        return vio("C14/wrong-start", format!("sender ({gc_s},{max_s}), receiver ({gc_r},{max_r}): no reset is warranted but the delta starts at version {} (receiver max {max_r})", d.from_version));
    }
    let from = d.from_version;
    if d.last_gc != gc_s {
        return vio("C14/wrong-watermark", format!("delta watermark {} != sender watermark {gc_s}", d.last_gc));
    }
    let owed: Vec<WKv> = case.sender.entries.iter().filter(|e| e.version > from).map(kv_of).collect();
    if d.kvs.len() > owed.len() || d.kvs[..] != owed[..d.kvs.len()] {
        return vio("C14/wrong-content", format!("delta key-values {:?} are not a prefix of the sender's entries above {from}: {:?}", d.kvs.iter().map(|k| (k.key.clone(), k.version, k.status)).collect::<Vec<_>>(), owed.iter().map(|k| (k.key.clone(), k.version, k.status)).collect::<Vec<_>>()));
    }
    if d.kvs.len() < owed.len() {
        facts.truncated = true;
        if case.budget.is_none() {
            return vio("C14/truncated-with-full-budget", format!("{} of {} tiny entries sent under the full budget", d.kvs.len(), owed.len()));
        }
    }
    if owed.is_empty() {
        if d.max_version == max_s {
            facts.set_max_only = true;
        } else if d.max_version == 0 && case.budget.is_some() {
            facts.truncated = true;
        } else {
            return vio("C14/missing-max-version", format!("no entry above {from} but the delta's max version is {} (sender max {max_s})", d.max_version));
        }
    } else if d.kvs.is_empty() && d.max_version != 0 {
        return vio("C14/bogus-max-version", format!("entries above {from} exist but an explicit max version {} was sent", d.max_version));
    }
    // Deliver to the unchanged receiver. The facade path wraps the delta in an ACK; a receiver
    // that does not know the member needs the digest of a SYN-ACK to create it, so that case is
    // delivered as SYN-ACK built by the independent encoder with the same ops.
    let deliver_msg: WMsg = match case.budget {
        None => decode_msg(&real_encode(&reply)).unwrap().msg,
        Some(_) => WMsg::SynAck { digest: vec![WNodeDigest { id: x.clone(), heartbeat: 5, last_gc: gc_s, max_version: max_s }], ops: ungroup(&deltas) },
    };
    let before = case.receiver.clone().unwrap_or(CopySpec { gc: 0, max: 0, entries: vec![] });
    match guard(|| feed(&mut r, &deliver_msg)) {
        Ok(Ok(_)) => {}
        Ok(Err(e)) => return vio("C14/delivery-undecodable", e),
        Err(p) => return vio(&format!("C14/{}", p.signature()), format!("receiver panicked: {}", p.describe())),
    }
    let Some(ns) = r.node_state(&xr) else {
        return vio("C14/member-not-created", "receiver has no copy after the SYN-ACK".into());
    };
    let after = read_spec(ns);
    let carries = !d.kvs.is_empty() || d.max_version > 0 || reset;
    let (expected, _) = reference_apply(&before, d);
    if carries {
        if (after.gc, after.max) <= (before.gc, before.max) {
            return vio("C14/refused-by-receiver", format!("receiver ({},{}) did not advance on the delta computed from its own digest by sender ({gc_s},{max_s}): from {} watermark {} max {} -> receiver now ({},{})", before.gc, before.max, d.from_version, d.last_gc, d.max_version, after.gc, after.max));
        }
        let want = (if reset { gc_s } else { gc_r }, d.max_version);
        if (after.gc, after.max) != want {
            return vio("C14/wrong-frontier-after-apply", format!("receiver frontier ({},{}) after applying, expected {:?}", after.gc, after.max, want));
        }
    }
    // Semantic end state, independent of the header fields: every sender entry in (old receiver
    // max, new receiver max] is now held by the receiver (unless it is a deletion at or below the
    // receiver's new watermark, or the receiver holds a newer version of that key).
    for e in &case.sender.entries {
        // (Keys the receiver already held before - in an arbitrary, possibly inconsistent pair -
        // are left to the reference apply below.)
        let held_before = !reset && before.entries.iter().any(|x| x.key == e.key);
        if e.version <= after.max && (reset || e.version > before.max) && !held_before {
            let held = after.entries.iter().find(|x| x.key == e.key);
            let ok = match held {
                Some(x) => x.version > e.version || (x.version == e.version && x.status == e.status),
                None => e.status != 0 && e.version <= after.gc,
            };
            if !ok && carries {
                return vio("C14/receiver-copy-not-exact", format!("after applying, receiver ({},{}) lacks sender entry (key {}, v{}, status {}): holds {:?}", after.gc, after.max, e.key, e.version, e.status, held));
            }
        }
    }
    if after != expected {
        return vio("C14/wrong-entries-after-apply", format!("receiver copy {:?} != reference apply {:?} (before {:?}, delta from {} gc {} kvs {:?})", after, expected, before, d.from_version, d.last_gc, d.kvs.iter().map(|k| (k.key.clone(), k.version, k.status)).collect::<Vec<_>>()));
    }
    Ok(facts)
}

// ------------------------------------------------------------------------------------------
// Enumeration of the C14 scope

/// All well-formed entry sets with up to `max_entries` entries, versions in 1..=max, distinct keys
/// assigned in order of appearance from `key_choices` alternatives for the first entry.
pub fn entry_sets(gc: u64, max: u64, max_entries: usize) -> Vec<Vec<EntryS>> {
    let mut out = vec![vec![]];
    let versions: Vec<u64> = (1..=max).collect();
    // subsets of size 1..=max_entries
    fn rec(start: usize, versions: &[u64], cur: &mut Vec<u64>, max_entries: usize, subsets: &mut Vec<Vec<u64>>) {
        if !cur.is_empty() {
            subsets.push(cur.clone());
        }
        if cur.len() == max_entries {
            return;
        }
        for i in start..versions.len() {
            cur.push(versions[i]);
            rec(i + 1, versions, cur, max_entries, subsets);
            cur.pop();
        }
    }
    let mut subsets = Vec::new();
    rec(0, &versions, &mut Vec::new(), max_entries, &mut subsets);
    for sub in subsets {
        let n = sub.len();
        let combos = 3usize.pow(n as u32);
        'c: for c in 0..combos {
            let mut entries = Vec::new();
            let mut cc = c;
            for (i, v) in sub.iter().enumerate() {
                let status = (cc % 3) as u8;
                cc /= 3;
                if status != 0 && *v <= gc {
                    continue 'c;
                }
                entries.push(EntryS { key: i as u8, version: *v, status });
            }
            out.push(entries);
        }
    }
    out
}

fn op_len_kv(e: &EntryS) -> usize {
    op_len(&WOp::Kv(kv_of(e)))
}

/// Budgets that cut the delta at every key boundary (and one byte below each).
pub fn truncation_budgets(sender: &CopySpec, from: u64) -> Vec<u32> {
    let header = op_len(&WOp::Node { id: member_x(), last_gc: 0, from_version: 0 });
    let mut budgets = vec![100u32];
    let mut pending = header;
    budgets.push((3 + pending + 1) as u32);
    for e in sender.entries.iter().filter(|e| e.version > from) {
        pending += op_len_kv(e);
        let b = (3 + pending + 1) as u32;
        budgets.push(b.saturating_sub(1));
        budgets.push(b);
    }
    budgets.push((3 + pending + 9 + 1) as u32);
    budgets.sort();
    budgets.dedup();
    budgets.retain(|b| *b >= 100);
    budgets
}

pub fn run_c14(ctx: &Ctx, report: &mut Report) {
    let vmax: u64 = 7;
    // outer units: sender frontier x receiver frontier (incl. unknown)
    let frontiers: Vec<(u64, u64)> = (0..=vmax).flat_map(|gc| (0..=vmax).map(move |max| (gc, max))).collect();
    let outer = frontiers.len() as u64 * (frontiers.len() as u64 + 1);
    // quick: sample 1 in `stride` inner combinations (deterministic in the seed); thorough: all.
    let stride: u64 = ctx.tier.pick(40, 1);
    let seed = ctx.seed;
    let mut sub = run_enumeration(ctx, "frontier-pairs-x-entry-sets", outer, |idx, tally| {
        let (gc_s, max_s) = frontiers[(idx / (frontiers.len() as u64 + 1)) as usize];
        let ri = (idx % (frontiers.len() as u64 + 1)) as usize;
        let recv_frontier = if ri == frontiers.len() { None } else { Some(frontiers[ri]) };
        let sender_sets = entry_sets(gc_s, max_s, 3);
        let recv_sets: Vec<Vec<EntryS>> = match recv_frontier {
            None => vec![vec![]],
            Some((gc_r, max_r)) => {
                let mut v = vec![vec![]];
                for ver in 1..=max_r {
                    for status in 0..3u8 {
                        if status != 0 && ver <= gc_r {
                            continue;
                        }
                        // same key as the sender's first entry, or an unrelated key
                        v.push(vec![EntryS { key: 0, version: ver, status }]);
                        v.push(vec![EntryS { key: 3, version: ver, status }]);
                    }
                }
                v
            }
        };
        let mut trials = 0u64;
        let mut n = 0u64;
        for ss in &sender_sets {
            let sender = CopySpec { gc: gc_s, max: max_s, entries: ss.clone() };
            for rs in &recv_sets {
                n += 1;
                if stride > 1 && splitmix64(seed ^ idx.wrapping_mul(0x9E37_79B9) ^ n) % stride != 0 {
                    continue;
                }
                let receiver = recv_frontier.map(|(gc, max)| CopySpec { gc, max, entries: rs.clone() });
                let from = match &receiver {
                    Some(rc) if !(rc.gc < gc_s && rc.max < gc_s) => rc.max,
                    _ => 0,
                };
                let mut budgets: Vec<Option<u32>> = vec![None];
                if max_s > receiver.as_ref().map(|r| r.max).unwrap_or(0) {
                    budgets.extend(truncation_budgets(&sender, from).into_iter().map(Some));
                }
                for b in budgets {
                    let case = PairCase { sender: sender.clone(), receiver: receiver.clone(), budget: b, self_member: false, receiver_removed_other: false, receiver_evaluated: n % 5 == 0 };
                    trials += 1;
                    exec_pair(&case, tally).map_err(|f| (f, serde_json::to_value(&case).unwrap()))?;
                }
            }
        }
        tally.sum("trials", trials);
        tally.evaluations += trials.saturating_sub(1);
        Ok(())
    });
    sub.exhaustive = stride == 1 && ctx.scale >= 1.0;
    sub.scope = format!(
        "sender and receiver copies of one member with watermarks and max versions in 0..={vmax} (all 64 x 65 frontier pairs incl. watermark > max and 'member unknown'), sender entries: every set of <= 3 versions with every status (deleted/TTL only above the watermark), receiver entries: none or one (same key as the sender's first entry or unrelated), every truncation point via size budgets; sampling stride {stride} (1 = exhaustive)"
    );
    report.push(sub);
    // Larger random scope.
    report.push(run_proptest(ctx, "random-larger-scope", ctx.cases(20_000, 1_000_000), 500, pair_strategy, exec_pair));
    report.push(run_proptest(ctx, "member-scheduled-at-receiver", ctx.cases(20_000, 600_000), 500, pair_strategy, exec_pair_scheduled));
}

fn copy_strategy(vmax: u64, max_entries: usize) -> impl Strategy<Value = CopySpec> {
    (0..=vmax, 0..=vmax, proptest::collection::vec((1..=vmax, 0u8..3), 0..=max_entries)).prop_map(|(gc, max, raw)| {
        let mut versions: Vec<(u64, u8)> = raw.into_iter().filter(|(v, _)| *v <= max).collect();
        versions.sort();
        versions.dedup_by_key(|e| e.0);
        versions.truncate(4);
        let entries = versions.into_iter().enumerate().map(|(i, (version, status))| EntryS { key: i as u8, version, status: if version <= gc { 0 } else { status } }).collect();
        CopySpec { gc, max, entries }
    })
}

pub fn pair_strategy() -> impl Strategy<Value = PairCase> {
    let vmax = prop_oneof![3 => Just(12u64), 1 => Just(1_000_000u64)];
    vmax.prop_flat_map(|vmax| (copy_strategy(vmax, 4), proptest::option::weighted(0.85, copy_strategy(vmax, 4)), proptest::option::weighted(0.4, 100u32..600), prop_oneof![3 => Just(false), 1 => Just(true)], prop_oneof![3 => Just(false), 1 => Just(true)], prop_oneof![2 => Just(false), 1 => Just(true)]))
        .prop_map(|(sender, receiver, budget, self_member, receiver_removed_other, receiver_evaluated)| {
            // a node always knows itself
            let receiver = if self_member { Some(receiver.unwrap_or(CopySpec { gc: 0, max: 0, entries: vec![] })) } else { receiver };
            PairCase { sender, receiver, budget, self_member, receiver_removed_other, receiver_evaluated }
        })
}

/// C14 variant: at the receiver the member has been dead for more than half the dead-node grace
/// period (scheduled for deletion: its digest no longer lists the member) but its copy is still
/// held; the sender still hears from the member. The delta the sender computes from that digest
/// (necessarily from version 0) must be applied by the receiver exactly like any other.
pub fn exec_pair_scheduled(case: &PairCase, tally: &mut Tally) -> Result<(), Failure> {
    let Some(rc) = case.receiver.clone() else { return Ok(()) };
    crate::util::with_paused_runtime(async {
        let fd20 = FdCfg { dead_grace_ms: 20_000, ..FdCfg::default() };
        let mut s = build_node(&simple_id("s", 0, 7601), "c", Duration::from_secs(3600), &fd20, false, 0).chitchat;
        let mut r = build_node(&simple_id("r", 0, 7602), "c", Duration::from_secs(3600), &fd20, false, 0).chitchat;
        let x = member_x();
        let xr = x.to_real();
        for (n, c) in [(&mut s, &case.sender), (&mut r, &rc)] {
            if let Err(e) = guard(|| install_copy(n, &x, c, 5)).map_err(|p| p.describe()).and_then(|r| r) {
                tally.discard(&format!("setup: {}", e.chars().take(40).collect::<String>()));
                return Ok(());
            }
        }
        r.verif_update_nodes_liveness();
        crate::util::advance_ns(10_000 * 1_000_000 + 1_000_000).await;
        r.verif_update_nodes_liveness();
        if !r.scheduled_for_deletion_nodes().any(|i| *i == xr) || r.node_state(&xr).is_none() {
            tally.discard("member not scheduled for deletion at the receiver");
            return Ok(());
        }
        let syn = r.verif_create_syn_message();
        let reply = match guard(|| s.verif_process_message(syn)) {
            Ok(Some(m)) => m,
            Ok(None) => return vio("C14/no-synack", "no SYN-ACK".into()),
            Err(p) => return vio(&format!("C14/{}", p.signature()), format!("sender panicked: {}", p.describe())),
        };
        let (_bytes, deltas) = extract_delta(&reply)?;
        let Some(d) = deltas.iter().find(|d| d.id == x).cloned() else {
            if case.sender.max > 0 {
                return vio("C14/empty-delta-when-ahead", format!("the receiver's digest does not list the member (scheduled for deletion there), the sender holds it at ({},{}) but offered nothing", case.sender.gc, case.sender.max));
            }
            return Ok(());
        };
        let before = rc.clone();
        match guard(|| r.verif_process_message(reply)) {
            Ok(_) => {}
            Err(p) => return vio(&format!("C14/{}", p.signature()), format!("receiver panicked: {}", p.describe())),
        }
        let Some(ns) = r.node_state(&xr) else {
            return vio("C14/member-not-created", "the receiver dropped its copy while processing the SYN-ACK".into());
        };
        let after = read_spec(ns);
        let (expected, _) = reference_apply(&before, &d);
        if after != expected {
            return vio("C14/scheduled-member-delta-not-applied", format!("receiver copy ({},{}) of a member it has scheduled for deletion, delta from {} watermark {} max {} computed from the receiver's own digest: the copy is now ({},{}) with {} entries, the reference apply gives ({},{}) with {} entries", before.gc, before.max, d.from_version, d.last_gc, d.max_version, after.gc, after.max, after.entries.len(), expected.gc, expected.max, expected.entries.len()));
        }
        if (expected.gc, expected.max) > (before.gc, before.max) {
            tally.nontrivial(str_hash(&format!("{case:?}")));
            tally.label("scheduled_member_copy_advanced");
        }
        Ok(())
    })
}

pub fn replay_c14(ctx: &Ctx, sub: &str, case: &serde_json::Value) -> SubResult {
    if sub == "member-scheduled-at-receiver" {
        return replay_case::<PairCase, _>(ctx, sub, case, exec_pair_scheduled);
    }
    replay_case::<PairCase, _>(ctx, sub, case, exec_pair)
}

// ------------------------------------------------------------------------------------------
// C04(b) and C20(b): arbitrary honest-form deltas on arbitrary copies

#[derive(Clone, Debug, Serialize, Deserialize)]
pub struct DeltaSpec {
    /// index of the member (0..3); members beyond the receiver's known ones are unknown to it
    pub member: u8,
    pub gc: u64,
    pub from: u64,
    pub kvs: Vec<EntryS>,
    pub set_max: u64,
}

#[derive(Clone, Debug, Serialize, Deserialize)]
pub struct ApplyCase {
    /// receiver's copies of members 0..n
    pub copies: Vec<CopySpec>,
    pub deltas: Vec<DeltaSpec>,
    /// deliver as SYN-ACK whose digest mentions every delta member (creates unknown ones)
    pub synack: bool,
    /// deliver the same message twice
    pub twice: bool,
}

pub fn member_n(i: u8) -> WId {
    if i == 3 {
        // the receiver itself (a node restarted under the same id whose peers hold its old state)
        return WId::from_real(&simple_id("r", 0, 7602));
    }
    WId::v4(&format!("m{i}"), 0, 7700 + i as u16)
}

fn delta_to_model(d: &DeltaSpec) -> WNodeDelta {
    let mut kvs: Vec<WKv> = Vec::new();
    let mut last = d.from;
    for e in &d.kvs {
        if e.version > last {
            kvs.push(kv_of(e));
            last = e.version;
        }
    }
    let max_version = if kvs.is_empty() { if d.set_max > d.from { d.set_max } else { 0 } } else { last };
    WNodeDelta { id: member_n(d.member), last_gc: d.gc, from_version: d.from, kvs, max_version }
}

pub fn exec_apply(case: &ApplyCase, tally: &mut Tally, prop: &str) -> Result<(), Failure> {
    let built = fresh_node("r", 7602, true);
    let mut r = built.chitchat;
    let calls = built.catchup_calls;
    for (i, c) in case.copies.iter().enumerate() {
        if let Err(e) = guard(|| install_copy(&mut r, &member_n(i as u8), c, 5)).map_err(|p| p.describe()).and_then(|x| x) {
            tally.discard(&format!("setup: {}", e.chars().take(50).collect::<String>()));
            return Ok(());
        }
    }
    // distinct members only (the decoder rejects duplicates)
    let mut seen = std::collections::HashSet::new();
    let deltas: Vec<WNodeDelta> = case.deltas.iter().filter(|d| seen.insert(d.member)).map(delta_to_model).collect();
    let ops = ungroup(&deltas);
    let msg = if case.synack {
        WMsg::SynAck { digest: deltas.iter().map(|d| WNodeDigest { id: d.id.clone(), heartbeat: 9, last_gc: d.last_gc, max_version: d.max_version }).collect(), ops }
    } else {
        WMsg::Ack { ops }
    };
    let rounds = if case.twice { 2 } else { 1 };
    let mut any_reset_case = false;
    let mut multi = false;
    let mut narrow = false;
    for round in 0..rounds {
        let calls_before = calls.load(Ordering::SeqCst);
        let before: BTreeMap<ChitchatId, CopySpec> = r.node_states().iter().map(|(id, ns)| (id.clone(), read_spec(ns))).collect();
        match guard(|| feed(&mut r, &msg)) {
            Ok(Ok(_)) => {}
            Ok(Err(e)) => {
                tally.discard(&format!("undecodable: {}", e.chars().take(40).collect::<String>()));
                return Ok(());
            }
            Err(p) => {
                if prop == "C04" {
                    return vio(&format!("C04/{}", p.signature()), format!("processing an honest-form delta panicked: {}", p.describe()));
                }
                tally.discard(&format!("panic: {}", p.signature()));
                return Ok(());
            }
        }
        let after: BTreeMap<ChitchatId, CopySpec> = r.node_states().iter().map(|(id, ns)| (id.clone(), read_spec(ns))).collect();
        let mut predicted = 0;
        let mut observed = 0;
        for d in &deltas {
            let rid = d.id.to_real();
            let Some(a) = after.get(&rid) else { continue };
            let b = before.get(&rid).cloned().unwrap_or(CopySpec { gc: 0, max: 0, entries: vec![] });
            if (a.gc, a.max) < (b.gc, b.max) && prop == "C04" {
                return vio("C04/frontier-decreased", format!("copy {:?} -> {:?} on delta from {} gc {} max {}", (b.gc, b.max), (a.gc, a.max), d.from_version, d.last_gc, d.max_version));
            }
            if prop == "C04" {
                for e in &a.entries {
                    if let Some(old) = b.entries.iter().find(|o| o.key == e.key) {
                        if e.version < old.version && a.gc <= b.gc {
                            return vio("C04/key-version-decreased", format!("key {} went from version {} to {} without a reset", e.key, old.version, e.version));
                        }
                    }
                }
                // a key may only disappear through a reset
                for old in &b.entries {
                    if !a.entries.iter().any(|e| e.key == old.key) && a.gc <= b.gc {
                        return vio("C04/key-lost-without-reset", format!("key {} (v{}) disappeared without a reset", old.key, old.version));
                    }
                }
            }
            if d.from_version == 0 && d.last_gc > b.gc && d.last_gc > b.max {
                predicted += 1;
            } else if d.from_version == 0 && d.last_gc > b.gc && d.last_gc == b.max {
                narrow = true;
            }
            if a.gc > b.gc {
                observed += 1;
            }
        }
        let n_calls = calls.load(Ordering::SeqCst) - calls_before;
        if prop == "C20" {
            let want = if predicted > 0 { 1 } else { 0 };
            if n_calls != want {
                return vio("C20/callback-count", format!("delivery {round}: {predicted} member copies had to be reset ({observed} watermarks rose) but the callback ran {n_calls} times"));
            }
            if (predicted > 0) != (observed > 0) {
                return vio("C20/reset-prediction", format!("delivery {round}: spec predicts {predicted} resets, {observed} watermarks rose"));
            }
        }
        if predicted > 0 {
            any_reset_case = true;
        }
        if predicted >= 2 {
            multi = true;
        }
    }
    // Local writes after the deliveries (C04: "a fresh version exactly one above the owner's
    // previous max version"), in particular on an own state that a delta about the receiver
    // itself (same-id restart) left with a watermark above its max version.
    if prop == "C04" {
        let own = r.self_node_state();
        let (gc0, max0) = (own.last_gc_version(), own.max_version());
        let live: Option<String> = own.key_values().map(|(k, _)| k.to_string()).next();
        let mut expect = max0;
        let r1 = guard(|| {
            let own = r.self_node_state();
            let mut seen: Vec<(&'static str, u64, u64)> = Vec::new();
            own.set("zz-local-new", "1");
            seen.push(("set of a new key", own.get_versioned("zz-local-new").map(|v| v.version).unwrap_or(0), own.max_version()));
            own.delete("zz-local-new");
            seen.push(("delete of a live key", own.get_versioned("zz-local-new").map(|v| v.version).unwrap_or(0), own.max_version()));
            if let Some(k) = &live {
                own.delete_after_ttl(k);
                seen.push(("delete_after_ttl of a live key", own.get_versioned(k).map(|v| v.version).unwrap_or(0), own.max_version()));
            }
            seen
        });
        match r1 {
            Ok(seen) => {
                for (what, version, max) in seen {
                    expect += 1;
                    if version != expect || max != expect {
                        return vio("C04/local-version-not-previous-max-plus-one", format!("own state at (watermark {gc0}, max version {max0}) after the deliveries: the {what} got version {version} (max version now {max}), expected {expect}"));
                    }
                }
                if gc0 > max0 {
                    tally.label("local_writes_on_own_state_with_watermark_above_max");
                }
            }
            Err(p) => return vio(&format!("C04/{}", p.signature()), format!("a local write after the deliveries panicked: {}", p.describe())),
        }
    }
    let nontrivial = match prop {
        "C20" => any_reset_case,
        _ => any_reset_case || case.twice || !deltas.is_empty(),
    };
    if any_reset_case {
        tally.label("reset");
    }
    if multi {
        tally.label("multi_reset_message");
    }
    if narrow {
        tally.label("narrowly_no_reset");
    }
    if case.twice {
        tally.label("delivered_twice");
    }
    if deltas.iter().any(|d| d.id.port == 7602) {
        tally.label("delta_about_the_receiver_itself");
    }
    if case.synack && deltas.iter().any(|d| d.id.port >= 7700 && (d.id.port - 7700) as usize >= case.copies.len()) {
        tally.label("just_created_member");
    }
    if nontrivial {
        tally.nontrivial(str_hash(&format!("{case:?}")));
        if multi || narrow {
            tally.sample(|| serde_json::to_value(case).unwrap());
        }
    }
    Ok(())
}

fn delta_strategy(vmax: u64) -> impl Strategy<Value = DeltaSpec> {
    (0u8..4, 0..=vmax, prop_oneof![3 => Just(0u64), 2 => 0..=vmax], proptest::collection::vec((1..=vmax, 0u8..3, 0u8..4), 0..3), 0..=vmax).prop_map(|(member, gc, from, raw, set_max)| {
        let mut kvs: Vec<EntryS> = raw.into_iter().map(|(version, status, key)| EntryS { key, version, status }).collect();
        kvs.sort_by_key(|e| e.version);
        kvs.dedup_by_key(|e| e.version);
        DeltaSpec { member, gc, from, kvs, set_max }
    })
}

pub fn apply_strategy(vmax: u64) -> impl Strategy<Value = ApplyCase> {
    (proptest::collection::vec(copy_strategy(vmax, 3), 0..=3), proptest::collection::vec(delta_strategy(vmax), 1..=3), any::<bool>(), prop_oneof![3 => Just(false), 1 => Just(true)])
        .prop_map(|(copies, deltas, synack, twice)| ApplyCase { copies, deltas, synack, twice })
}

/// Exhaustive single-member scope for C04(b): copy frontier x copy entries (<= 1) x delta
/// (watermark, start, <= 2 key-values or explicit max version), all values in 0..=6.
pub fn run_c04b(ctx: &Ctx, report: &mut Report) {
    let vmax = 6u64;
    let frontiers: Vec<(u64, u64)> = (0..=vmax).flat_map(|gc| (0..=vmax).map(move |max| (gc, max))).collect();
    // outer unit: (copy frontier, delta watermark, delta start)
    let outer = frontiers.len() as u64 * (vmax + 1) * (vmax + 1);
    let stride: u64 = ctx.tier.pick(12, 1);
    let seed = ctx.seed;
    let mut sub = run_enumeration(ctx, "copy-x-delta-pairs", outer, |idx, tally| {
        let (gc_c, max_c) = frontiers[(idx / ((vmax + 1) * (vmax + 1))) as usize];
        let gc_d = (idx / (vmax + 1)) % (vmax + 1);
        let from = idx % (vmax + 1);
        let copy_sets = entry_sets(gc_c, max_c, 2);
        // delta contents: explicit max version, or 1..2 kvs above `from`, keys 0/1 (overlapping the copy's) with all statuses
        let mut contents: Vec<(Vec<EntryS>, u64)> = vec![(vec![], 0)];
        for m in from + 1..=vmax {
            contents.push((vec![], m));
        }
        for v1 in from + 1..=vmax {
            for s1 in 0..3u8 {
                for k1 in 0..2u8 {
                    contents.push((vec![EntryS { key: k1, version: v1, status: s1 }], 0));
                    for v2 in v1 + 1..=vmax {
                        for s2 in 0..3u8 {
                            contents.push((vec![EntryS { key: k1, version: v1, status: s1 }, EntryS { key: 1 - k1, version: v2, status: s2 }], 0));
                        }
                    }
                }
            }
        }
        let mut trials = 0u64;
        let mut n = 0u64;
        for cs in &copy_sets {
            for (kvs, set_max) in &contents {
                n += 1;
                if stride > 1 && splitmix64(seed ^ idx.wrapping_mul(0x51_7C_C1B7) ^ n) % stride != 0 {
                    continue;
                }
                for twice in [false, true] {
                    let case = ApplyCase {
                        copies: vec![CopySpec { gc: gc_c, max: max_c, entries: cs.clone() }],
                        deltas: vec![DeltaSpec { member: 0, gc: gc_d, from, kvs: kvs.clone(), set_max: *set_max }],
                        synack: false,
                        twice,
                    };
                    trials += 1;
                    exec_apply(&case, tally, "C04").map_err(|f| (f, serde_json::to_value(&case).unwrap()))?;
                }
            }
        }
        tally.evaluations += trials.saturating_sub(1);
        Ok(())
    });
    sub.exhaustive = stride == 1 && ctx.scale >= 1.0;
    sub.scope = format!("one member; copy watermark/max in 0..={vmax} with <= 2 entries (every status), delta watermark and start in 0..={vmax}, content = explicit max version or 1..2 ascending key-values above the start with every status and key overlap, each delivered once and twice; sampling stride {stride} (1 = exhaustive)");
    report.push(sub);
    report.push(run_proptest(ctx, "random-multi-member-deltas", ctx.cases(100_000, 3_000_000), 500, || apply_strategy(8), |c, t| exec_apply(c, t, "C04")));
}

pub fn run_c20b(ctx: &Ctx, report: &mut Report) {
    report.push(run_proptest(ctx, "copy-delta-pairs", ctx.cases(300_000, 10_000_000), 500, || apply_strategy(7), |c, t| exec_apply(c, t, "C20")));
}

pub fn replay_apply(ctx: &Ctx, sub: &str, case: &serde_json::Value, prop: &'static str) -> SubResult {
    replay_case::<ApplyCase, _>(ctx, sub, case, |c, t| exec_apply(c, t, prop))
}

#[allow(dead_code)]
pub fn describe_scope() -> serde_json::Value {
    json!({"keys": PKEYS})
}

// ------------------------------------------------------------------------------------------
// C05 sub-check: any honest-form delta about the node itself that a peer could still hold (its
// watermark and versions never exceed the owner's max version) must leave the own namespace alone.

#[derive(Clone, Debug, Serialize, Deserialize)]
pub struct SelfDeltaCase {
    /// own writes: (key, 0 set / 1 delete / 2 set_with_ttl / 3 delete_after_ttl)
    pub own_ops: Vec<(u8, u8)>,
    /// run the node's own key GC after the grace period (collects its tombstones)
    pub own_gc: bool,
    /// the delta about the node itself (clamped to the owner's max version)
    pub delta: DeltaSpec,
    pub synack: bool,
}

pub fn exec_self_delta(case: &SelfDeltaCase, tally: &mut Tally) -> Result<(), Failure> {
    crate::util::with_paused_runtime(async {
        let id = simple_id("r", 0, 7602);
        let mut r = build_node(&id, "c", Duration::from_secs(10), &FdCfg::default(), false, 0).chitchat;
        for (k, op) in &case.own_ops {
            let key = PKEYS[*k as usize % 4];
            let ns = r.self_node_state();
            match op % 4 {
                0 => ns.set(key, format!("own-{}", ns.max_version())),
                1 => ns.delete(key),
                2 => ns.set_with_ttl(key, "ttl"),
                _ => ns.delete_after_ttl(key),
            }
        }
        if case.own_gc {
            crate::util::advance_ns(10_000_000_001).await;
            r.verif_gc_keys_marked_for_deletion();
        }
        let own_max = r.self_node_state().max_version();
        let wid = WId::from_real(&id);
        // what a peer could hold: nothing beyond the owner's max version
        let mut d = delta_to_model(&case.delta);
        d.id = wid.clone();
        d.last_gc = d.last_gc.min(own_max);
        d.from_version = d.from_version.min(own_max);
        d.kvs.retain(|kv| kv.version <= own_max && kv.version > d.from_version);
        d.max_version = if d.kvs.is_empty() { d.max_version.min(own_max) } else { d.kvs.last().unwrap().version };
        let before = crate::util::copy_view(r.node_state(&id).unwrap());
        let ops = ungroup(std::slice::from_ref(&d));
        let msg = if case.synack { WMsg::SynAck { digest: vec![WNodeDigest { id: wid, heartbeat: 1, last_gc: d.last_gc, max_version: d.max_version }], ops } } else { WMsg::Ack { ops } };
        match guard(|| feed(&mut r, &msg)) {
            Ok(Ok(_)) => {}
            Ok(Err(_)) => {
                tally.discard("undecodable");
                return Ok(());
            }
            Err(p) => {
                tally.discard(&format!("panic: {}", p.signature()));
                return Ok(());
            }
        }
        let after = crate::util::copy_view(r.node_state(&id).unwrap());
        if before.entries != after.entries || before.gc != after.gc || before.max != after.max {
            return vio("C05/own-namespace-changed", format!("a delta about the node itself (watermark {}, start {}, max {}, {} key-values; nothing beyond the owner's max version {own_max}) changed its own namespace: ({},{}) {} entries -> ({},{}) {} entries", d.last_gc, d.from_version, d.max_version, d.kvs.len(), before.gc, before.max, before.entries.len(), after.gc, after.max, after.entries.len()));
        }
        if d.last_gc > before.gc || d.kvs.is_empty() {
            tally.nontrivial(str_hash(&format!("{case:?}")));
            tally.label(if d.kvs.is_empty() && d.max_version == 0 { "header_only_delta_about_self" } else { "delta_about_self" });
        }
        Ok(())
    })
}

pub fn self_delta_strategy() -> impl Strategy<Value = SelfDeltaCase> {
    (proptest::collection::vec((0u8..4, prop_oneof![4 => Just(0u8), 2 => Just(1u8), 1 => Just(2u8), 1 => Just(3u8)]), 1..10), any::<bool>(), delta_strategy(9), any::<bool>())
        .prop_map(|(own_ops, own_gc, delta, synack)| SelfDeltaCase { own_ops, own_gc, delta, synack })
}

pub fn run_c05_self(ctx: &Ctx, report: &mut Report) {
    report.push(run_proptest(ctx, "stale-deltas-about-self", ctx.cases(150_000, 4_000_000), 500, self_delta_strategy, exec_self_delta));
}

pub fn replay_c05_self(ctx: &Ctx, sub: &str, case: &serde_json::Value) -> SubResult {
    replay_case::<SelfDeltaCase, _>(ctx, sub, case, exec_self_delta)
}
