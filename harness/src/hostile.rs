//! C09: malformed or hostile datagrams cannot crash a node. Generators: random bytes, mutated
//! valid messages, structure-aware op streams in semantically arbitrary order.

use std::collections::BTreeMap;
use std::time::Duration;

use chitchat::{Chitchat, ChitchatId};
use proptest::prelude::*;
use serde::{Deserialize, Serialize};
use serde_json::json;

use crate::common::*;
use crate::pairs::{install_copy, CopySpec, EntryS, PKEYS};
use crate::util::*;
use crate::wire::*;
use crate::wirecheck::u64_class;

pub const UNIVERSE: usize = 48;

pub fn universe_id(i: usize) -> WId {
    if i == 0 {
        // the receiver itself
        return WId::from_real(&receiver_id());
    }
    let mut id = WId::v4(&format!("u{i}"), (i % 3) as u64, 8000 + i as u16);
    if i % 5 == 0 {
        id.ip = WIp::V6([i as u8; 16]);
    } else if i % 7 == 3 {
        id.ip = WIp::V6([0, 0, 0, 0, 0, 0, 0, 0, 0, 0, 0xff, 0xff, 10, 0, 0, i as u8]);
    }
    id
}

pub fn receiver_id() -> ChitchatId {
    simple_id("victim", 3, 7999)
}

#[derive(Clone, Debug, Serialize, Deserialize)]
pub enum OpSpec {
    Node { id: u8, gc: (u8, u32), from: (u8, u32) },
    Kv { key: u8, val_len: u16, version: (u8, u32), status: u8 },
    SetMax((u8, u32)),
}

#[derive(Clone, Debug, Serialize, Deserialize)]
pub struct Mutation {
    /// 0 flip bit, 1 set byte, 2 truncate at pos, 3 insert byte, 4 delete byte, 5 splice copy of a later range
    pub kind: u8,
    pub pos: u16,
    pub val: u8,
}

#[derive(Clone, Debug, Serialize, Deserialize)]
pub enum DgSpec {
    Random { len: u16, seed: u32, valid_header: bool },
    Structured { kind: u8, cluster_ok: bool, #[serde(default)] cluster_alt: Option<(u8, u16, u16)>, digest: Vec<(u8, (u8, u32), (u8, u32), (u8, u32))>, ops: Vec<OpSpec>, blocking: Blocking, mutations: Vec<Mutation> },
    /// Advance the clock by `secs` and evaluate liveness.
    Evaluate { secs: u16 },
}

#[derive(Clone, Debug, Serialize, Deserialize)]
pub struct HostileCase {
    /// Copies the victim holds initially: (universe index 1.., copy)
    pub copies: Vec<(u8, CopySpec)>,
    pub own_keys: u8,
    pub datagrams: Vec<DgSpec>,
}

fn build_ops(ops: &[OpSpec]) -> Vec<WOp> {
    ops.iter()
        .map(|o| match o {
            OpSpec::Node { id, gc, from } => WOp::Node { id: universe_id(*id as usize % UNIVERSE), last_gc: u64_class(gc.0, gc.1), from_version: u64_class(from.0, from.1) },
            OpSpec::Kv { key, val_len, version, status } => WOp::Kv(WKv {
                key: hostile_key(*key),
                value: "h".repeat(*val_len as usize % 300),
                version: u64_class(version.0, version.1),
                status: *status % 3,
            }),
            OpSpec::SetMax(v) => WOp::SetMax(u64_class(v.0, v.1)),
        })
        .collect()
}

/// Keys: the four ASCII pair keys, keys with multi-byte characters at various offsets, the empty key.
pub fn hostile_key(key: u8) -> String {
    match key {
        255 => String::new(),
        k if k % 10 < 4 => PKEYS[(k % 10) as usize].to_string(),
        k => ["ké", "kéé", "é", "k😀x", "kaé", "😀"][(k % 10 - 4) as usize].to_string(),
    }
}

pub fn datagram_bytes(spec: &DgSpec) -> Option<Vec<u8>> {
    match spec {
        DgSpec::Random { len, seed, valid_header } => {
            let mut x = splitmix64(*seed as u64);
            let mut bytes: Vec<u8> = (0..*len as usize)
                .map(|_| {
                    x = splitmix64(x);
                    x as u8
                })
                .collect();
            if *valid_header && bytes.len() >= 4 {
                bytes[0..2].copy_from_slice(&MAGIC.to_le_bytes());
                bytes[2] = 0;
                bytes[3] %= 4;
            }
            Some(bytes)
        }
        DgSpec::Structured { kind, cluster_ok, cluster_alt, digest, ops, blocking, mutations } => {
            // Foreign cluster ids of any shape: long, non-ASCII, multi-byte characters at
            // arbitrary byte offsets, prefixes / extensions of the real id.
            let foreign: String = match cluster_alt {
                None => "other".into(),
                Some((0, len, seed)) => expand_value(4, *len as usize % 1200, *seed as u64),
                Some((1, len, seed)) => expand_value(3, *len as usize % 1200, *seed as u64),
                Some((2, len, _)) => format!("c{}", "é".repeat(*len as usize % 300)),
                Some((3, len, seed)) => format!("{}{}", "a".repeat(*len as usize % 400), expand_value(4, 40, *seed as u64)),
                Some((_, _, _)) => String::new(),
            };
            let d: Vec<WNodeDigest> = digest
                .iter()
                .map(|(id, hb, gc, max)| WNodeDigest { id: universe_id(*id as usize % UNIVERSE), heartbeat: u64_class(hb.0, hb.1), last_gc: u64_class(gc.0, gc.1), max_version: u64_class(max.0, max.1) })
                .collect();
            let msg = match kind % 4 {
                0 => WMsg::Syn { cluster_id: if *cluster_ok { "c".into() } else { foreign }, digest: d },
                1 => WMsg::SynAck { digest: d, ops: build_ops(ops) },
                2 => WMsg::Ack { ops: build_ops(ops) },
                _ => WMsg::BadCluster,
            };
            let (mut bytes, _) = encode_msg(&msg, *blocking);
            for m in mutations {
                if bytes.is_empty() {
                    break;
                }
                let pos = pick_idx(m.pos, bytes.len());
                match m.kind % 6 {
                    0 => bytes[pos] ^= 1 << (m.val % 8),
                    1 => bytes[pos] = m.val,
                    2 => bytes.truncate(pos),
                    3 => bytes.insert(pos, m.val),
                    4 => {
                        bytes.remove(pos);
                    }
                    _ => {
                        let end = (pos + m.val as usize + 1).min(bytes.len());
                        let chunk: Vec<u8> = bytes[pos..end].to_vec();
                        let at = pick_idx(m.pos.rotate_left(7), bytes.len());
                        for (i, b) in chunk.into_iter().enumerate() {
                            bytes.insert((at + i).min(bytes.len()), b);
                        }
                    }
                }
            }
            bytes.truncate(MAX_DATAGRAM);
            Some(bytes)
        }
        DgSpec::Evaluate { .. } => None,
    }
}

fn vio<T>(sig: &str, msg: String) -> Result<T, Failure> {
    Err(Failure::new(sig, msg))
}

fn frontiers(n: &Chitchat) -> BTreeMap<ChitchatId, (u64, u64)> {
    n.node_states().iter().map(|(id, ns)| (id.clone(), (ns.last_gc_version(), ns.max_version()))).collect()
}

fn check_invariants(n: &Chitchat, before: &BTreeMap<ChitchatId, (u64, u64)>, step: usize) -> Result<(), Failure> {
    for (id, f) in frontiers(n) {
        if let Some(b) = before.get(&id) {
            if f < *b {
                return vio("C09/frontier-decreased", format!("datagram {step}: copy of {:?} went {:?} -> {:?}", id, b, f));
            }
        }
    }
    let live: std::collections::BTreeSet<&ChitchatId> = n.live_nodes().collect();
    let dead: std::collections::BTreeSet<&ChitchatId> = n.dead_nodes().collect();
    if let Some(x) = live.intersection(&dead).next() {
        return vio("C09/live-and-dead", format!("datagram {step}: {:?} is both live and dead", x));
    }
    if !live.contains(n.self_chitchat_id()) {
        return vio("C09/self-not-live", format!("datagram {step}: the node no longer lists itself as live"));
    }
    Ok(())
}

/// Core of the check, shared with the fuzz target: feeds raw datagrams to a victim node.
pub fn feed_datagrams(victim: &mut Chitchat, datagrams: &[Vec<u8>], tally: Option<&mut Tally>) -> Result<(usize, usize), Failure> {
    let mut decoded_ok = 0;
    let mut not_honest = 0;
    let mut tally = tally;
    for (step, bytes) in datagrams.iter().enumerate() {
        let before = frontiers(victim);
        let msg = match guard(|| real_decode(bytes)) {
            Ok(Ok((m, _))) => m,
            Ok(Err(_)) => {
                if let Some(t) = tally.as_deref_mut() {
                    t.label("rejected_cleanly");
                }
                continue;
            }
            Err(p) => return vio(&format!("C09/decode-{}", p.signature()), format!("datagram {step} ({} bytes): decoder panicked: {}", bytes.len(), p.describe())),
        };
        decoded_ok += 1;
        // Is it producible by an honest encoder?
        let honest = decode_msg(bytes).ok().map(|d| normalise_model(&d.msg).is_ok() && encode_msg(&d.msg, Blocking::Canonical).0 == *bytes).unwrap_or(false);
        // ... or does it carry data about a member the victim knows (itself included)?
        let touches_known = decode_msg(bytes)
            .ok()
            .map(|d| match d.msg {
                WMsg::SynAck { ops, .. } | WMsg::Ack { ops } => ops.iter().any(|o| matches!(o, WOp::Node { id, .. } if victim.node_state(&id.to_real()).is_some())),
                _ => false,
            })
            .unwrap_or(false);
        if !honest || touches_known {
            not_honest += 1;
        }
        if touches_known {
            if let Some(t) = tally.as_deref_mut() {
                t.label("delta_about_known_member");
            }
        }
        let reply = match guard(|| victim.verif_process_message(msg)) {
            Ok(r) => r,
            Err(p) => return vio(&format!("C09/process-{}", p.signature()), format!("datagram {step} ({} bytes) decoded and then made the node panic: {}", bytes.len(), p.describe())),
        };
        if let Some(reply) = reply {
            if let Err(p) = guard(|| real_encode(&reply)) {
                return vio(&format!("C09/reply-{}", p.signature()), format!("datagram {step}: the reply could not be serialized: {}", p.describe()));
            }
        }
        check_invariants(victim, &before, step)?;
        if let Some(t) = tally.as_deref_mut() {
            t.label("decoded_and_processed");
        }
    }
    Ok((decoded_ok, not_honest))
}

pub fn exec_hostile(case: &HostileCase, tally: &mut Tally) -> Result<(), Failure> {
    with_paused_runtime(async {
        let id = receiver_id();
        let fd = FdCfg { dead_grace_ms: 60_000, ..FdCfg::default() };
        let mut victim = build_node(&id, "c", Duration::from_secs(10), &fd, false, 0).chitchat;
        for k in 0..case.own_keys % 6 {
            let ns = victim.self_node_state();
            ns.set(PKEYS[k as usize % 4], format!("own{k}"));
            if k % 3 == 2 {
                ns.delete(PKEYS[k as usize % 4]);
            }
        }
        // The victim's application listens to a few prefixes (dispatch runs inside process_message).
        let _handles: Vec<chitchat::ListenerHandle> = ["k", "ke", "ka", "kaa", "é", ""].iter().take(1 + (case.own_keys as usize % 6)).map(|p| victim.subscribe_event(*p, |_| {})).collect();
        let mut seen = std::collections::HashSet::new();
        for (i, c) in &case.copies {
            let idx = 1 + (*i as usize % 8);
            if seen.insert(idx) {
                if guard(|| install_copy(&mut victim, &universe_id(idx), c, 5)).map_err(|p| p.describe()).and_then(|r| r).is_err() {
                    tally.discard("setup");
                    return Ok(());
                }
            }
        }
        let mut decoded_total = 0;
        let mut not_honest_total = 0;
        for (step, spec) in case.datagrams.iter().enumerate() {
            match spec {
                DgSpec::Evaluate { secs } => {
                    advance_ns(*secs as u64 * 1_000_000_000).await;
                    if let Err(p) = guard(|| victim.verif_update_nodes_liveness()) {
                        return vio(&format!("C09/liveness-{}", p.signature()), format!("evaluation after datagram {step} panicked: {}", p.describe()));
                    }
                    check_invariants(&victim, &BTreeMap::new(), step)?;
                    if let Err(p) = guard(|| victim.verif_gc_keys_marked_for_deletion()) {
                        return vio(&format!("C09/gc-{}", p.signature()), p.describe());
                    }
                }
                _ => {
                    let bytes = datagram_bytes(spec).unwrap();
                    let (d, nh) = feed_datagrams(&mut victim, &[bytes], Some(tally))?;
                    decoded_total += d;
                    not_honest_total += nh;
                }
            }
        }
        // The node must still be able to run a round.
        let r = guard(|| {
            victim.verif_update_nodes_liveness();
            let syn = victim.verif_create_syn_message();
            real_encode(&syn)
        });
        if let Err(p) = r {
            return vio(&format!("C09/aftermath-{}", p.signature()), format!("the node cannot run a gossip round any more: {}", p.describe()));
        }
        check_invariants(&victim, &BTreeMap::new(), case.datagrams.len())?;
        tally.sum("datagrams_decoded", decoded_total as u64);
        tally.sum("datagrams_not_honest", not_honest_total as u64);
        if not_honest_total > 0 {
            tally.nontrivial(str_hash(&format!("{case:?}")));
            tally.sample(|| json!({"datagrams": case.datagrams.iter().take(6).map(|d| format!("{d:?}").chars().take(300).collect::<String>()).collect::<Vec<_>>(), "decoded": decoded_total, "not_honest": not_honest_total}));
        }
        Ok(())
    })
}

fn u64_spec() -> impl Strategy<Value = (u8, u32)> {
    prop_oneof![4 => (1u8..2, 0u32..12), 2 => (0u8..8, any::<u32>())]
}

fn op_spec() -> impl Strategy<Value = OpSpec> {
    prop_oneof![
        3 => (0u8..10, u64_spec(), u64_spec()).prop_map(|(id, gc, from)| OpSpec::Node { id, gc, from }),
        1 => (0u8..48, u64_spec(), u64_spec()).prop_map(|(id, gc, from)| OpSpec::Node { id, gc, from }),
        6 => (prop_oneof![8 => 0u8..4, 3 => 4u8..10, 1 => Just(255u8)], 0u16..300, u64_spec(), 0u8..3).prop_map(|(key, val_len, version, status)| OpSpec::Kv { key, val_len, version, status }),
        3 => u64_spec().prop_map(OpSpec::SetMax),
    ]
}

fn blocking() -> impl Strategy<Value = Blocking> {
    prop_oneof![4 => Just(Blocking::Canonical), 1 => (1usize..200).prop_map(Blocking::Raw), 1 => (1usize..200).prop_map(Blocking::Mixed), 1 => (1usize..3000).prop_map(Blocking::Compressed)]
}

fn mutation() -> impl Strategy<Value = Mutation> {
    (0u8..6, any::<u16>(), any::<u8>()).prop_map(|(kind, pos, val)| Mutation { kind, pos, val })
}

fn dg_spec() -> impl Strategy<Value = DgSpec> {
    prop_oneof![
        1 => (0u16..600, any::<u32>(), any::<bool>()).prop_map(|(len, seed, valid_header)| DgSpec::Random { len, seed, valid_header }),
        10 => (
            0u8..4,
            prop_oneof![7 => Just(true), 3 => Just(false)],
            proptest::option::weighted(0.8, (0u8..5, any::<u16>(), any::<u16>())),
            proptest::collection::vec((prop_oneof![3 => 0u8..10, 1 => 0u8..48], u64_spec(), u64_spec(), u64_spec()), 0..5),
            proptest::collection::vec(op_spec(), 0..10),
            blocking(),
            prop_oneof![3 => Just(vec![]), 1 => proptest::collection::vec(mutation(), 1..4)],
        )
            .prop_map(|(kind, cluster_ok, cluster_alt, digest, ops, blocking, mutations)| DgSpec::Structured { kind, cluster_ok, cluster_alt, digest, ops, blocking, mutations }),
        1 => (0u16..120).prop_map(|secs| DgSpec::Evaluate { secs }),
    ]
}

fn copy_spec() -> impl Strategy<Value = CopySpec> {
    (0u64..8, 0u64..8, proptest::collection::vec((1u64..8, 0u8..3), 0..3)).prop_map(|(gc, max, raw)| {
        let mut versions: Vec<(u64, u8)> = raw.into_iter().filter(|(v, _)| *v <= max).collect();
        versions.sort();
        versions.dedup_by_key(|e| e.0);
        let entries = versions.into_iter().enumerate().map(|(i, (version, status))| EntryS { key: i as u8, version, status: if version <= gc { 0 } else { status } }).collect();
        CopySpec { gc, max, entries }
    })
}

pub fn case_strategy() -> impl Strategy<Value = HostileCase> {
    (proptest::collection::vec((0u8..8, copy_spec()), 0..4), 0u8..6, proptest::collection::vec(dg_spec(), 1..=20)).prop_map(|(copies, own_keys, datagrams)| HostileCase { copies, own_keys, datagrams })
}

pub fn run(ctx: &Ctx, report: &mut Report) {
    report.push(run_proptest(ctx, "hostile-sequences", ctx.cases(80_000, 3_000_000), 1500, case_strategy, exec_hostile));
    // The same garbage on the real UDP transport: the loop must survive it (shared with C19).
    report.push(crate::srv::udp_smoke(ctx));
}

pub fn replay(ctx: &Ctx, sub: &str, case: &serde_json::Value) -> SubResult {
    if sub == "udp-loopback-smoke" {
        return crate::srv::udp_smoke(ctx);
    }
    replay_case::<HostileCase, _>(ctx, sub, case, exec_hostile)
}
