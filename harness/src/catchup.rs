//! Engine E8: external catch-up entry point `reset_node_state_if_update` (C18).

use std::collections::BTreeMap;
use std::time::Duration;

use chitchat::{Chitchat, DeletionStatus, VersionedValue};
use proptest::prelude::*;
use serde::{Deserialize, Serialize};
use serde_json::json;

use crate::common::*;
use crate::pairs::{install_copy, member_x, read_spec, CopySpec, EntryS, PKEYS};
use crate::util::*;
use crate::wire::*;

#[derive(Clone, Debug, Serialize, Deserialize)]
pub enum Existing {
    Absent,
    /// Introduced by a digest only (empty copy at (0,0)).
    Empty,
    Copy(CopySpec),
    /// Introduced, declared dead, removed after the grace period (remembered as removed).
    Removed,
    /// Known only through an earlier catch-up call (never gossiped, heartbeat 0), then declared
    /// dead and removed after the grace period.
    RemovedCatchupOnly,
}

#[derive(Clone, Debug, Serialize, Deserialize)]
pub struct Supplied {
    pub entries: Vec<EntryS>,
    pub max_version: u64,
    pub last_gc_version: u64,
    /// 0 none; 1: max_version = u64::MAX; 2: max_version = u64::MAX - 1; 3: both fields u64::MAX
    #[serde(default)]
    pub extreme: u8,
}

impl Supplied {
    fn max(&self) -> u64 {
        match self.extreme {
            1 | 3 => u64::MAX,
            2 => u64::MAX - 1,
            _ => self.max_version,
        }
    }
    fn gc(&self) -> u64 {
        if self.extreme == 3 { u64::MAX } else { self.last_gc_version }
    }
}

#[derive(Clone, Debug, Serialize, Deserialize)]
pub struct CatchupCase {
    pub existing: Existing,
    pub supplied: Supplied,
    /// Give the member two fresh heartbeats before the call (so that it may be live).
    pub heartbeats_before: u8,
    /// After the call, deliver this honest-form delta about the member (only after well-formed
    /// supplied states): (watermark, start, explicit max or 0, key-values)
    pub follow_up: Option<(u64, u64, u64, Vec<EntryS>)>,
    /// A second catch-up call right after the first one (same oracles).
    #[serde(default)]
    pub second: Option<Supplied>,
    /// Supplied entries whose key the copy already holds reuse the copy's value text (the owner
    /// wrote the same value again at a newer version).
    #[serde(default)]
    pub same_values: bool,
}

const DEAD_GRACE_MS: u64 = 20_000;

fn node(name: &str) -> Chitchat {
    let id = simple_id(name, 0, 7602);
    let fd = FdCfg { dead_grace_ms: DEAD_GRACE_MS, ..FdCfg::default() };
    build_node(&id, "c", Duration::from_secs(3600), &fd, false, 0).chitchat
}

fn feed(node: &mut Chitchat, msg: &WMsg) {
    let (bytes, _) = encode_msg(msg, Blocking::Canonical);
    let (m, _) = real_decode(&bytes).expect("decodes");
    node.verif_process_message(m);
}

fn vv(e: &EntryS) -> (String, VersionedValue) {
    let now = tokio::time::Instant::now();
    let status = match e.status {
        0 => DeletionStatus::Set,
        1 => DeletionStatus::Deleted(now),
        _ => DeletionStatus::DeleteAfterTtl(now),
    };
    (PKEYS[e.key as usize % 4].to_string(), VersionedValue { value: if e.status == 1 { String::new() } else { format!("supplied-{}", e.version) }, version: e.version, status })
}

fn vio<T>(sig: &str, msg: String) -> Result<T, Failure> {
    Err(Failure::new(sig, msg))
}

async fn prepare(case: &CatchupCase, nodes: &mut [&mut Chitchat]) -> Result<(), String> {
    let x = member_x();
    let intro = WMsg::Syn { cluster_id: "c".into(), digest: vec![WNodeDigest { id: x.clone(), heartbeat: 5, last_gc: 0, max_version: 0 }] };
    match &case.existing {
        Existing::Absent => {}
        Existing::Empty => {
            for n in nodes.iter_mut() {
                feed(n, &intro);
            }
        }
        Existing::Copy(c) => {
            for n in nodes.iter_mut() {
                install_copy(n, &x, c, 5)?;
            }
        }
        Existing::Removed | Existing::RemovedCatchupOnly => {
            for n in nodes.iter_mut() {
                if matches!(case.existing, Existing::Removed) {
                    feed(n, &intro);
                } else {
                    let e = EntryS { key: 0, version: 1, status: 0 };
                    n.reset_node_state_if_update(&x.to_real(), vec![vv(&e)].into_iter(), 1, 0);
                    if n.node_state(&x.to_real()).is_none() {
                        return Err("catch-up did not create the member".into());
                    }
                }
                n.verif_update_nodes_liveness();
            }
            advance_ns(DEAD_GRACE_MS * 1_000_000 + 1).await;
            for n in nodes.iter_mut() {
                n.verif_update_nodes_liveness();
                if n.node_state(&x.to_real()).is_some() {
                    return Err("member not removed after the grace period".into());
                }
            }
        }
    }
    if !matches!(case.existing, Existing::Removed | Existing::RemovedCatchupOnly | Existing::Absent) {
        for i in 0..case.heartbeats_before {
            advance_ns(500_000_000).await;
            for n in nodes.iter_mut() {
                feed(n, &WMsg::Syn { cluster_id: "c".into(), digest: vec![WNodeDigest { id: x.clone(), heartbeat: 6 + i as u64, last_gc: 0, max_version: 0 }] });
            }
        }
    }
    Ok(())
}

/// One catch-up call with the replacement oracle. Returns (before, after, passed_guards, supplied
/// entries) or None when the member is (rightly) absent.
#[allow(clippy::type_complexity)]
fn one_call(n: &mut Chitchat, xr: &chitchat::ChitchatId, sup: &Supplied, same_values: bool, removed: bool, tally: &mut Tally) -> Result<Option<(CopySpec, CopySpec, bool, Vec<EntryS>)>, Failure> {
    let before = n.node_state(xr).map(read_spec);
    let before_entries: BTreeMap<u8, EntryS> = before.as_ref().map(|c| c.entries.iter().map(|e| (e.key, e.clone())).collect()).unwrap_or_default();
    let before_values: BTreeMap<String, String> = n.node_state(xr).map(|ns| ns.key_values_including_deleted().map(|(k, vv)| (k.to_string(), vv.value.clone())).collect()).unwrap_or_default();
    let mut seen = std::collections::HashSet::new();
    let supplied: Vec<EntryS> = sup.entries.iter().filter(|e| seen.insert(e.key % 4)).cloned().collect();
    let kvs: Vec<(String, VersionedValue)> = supplied
        .iter()
        .map(|e| {
            let (k, mut v) = vv(e);
            if same_values && e.status != 1 {
                if let Some(old) = before_values.get(&k) {
                    if !old.is_empty() {
                        v.value = old.clone();
                    }
                }
            }
            (k, v)
        })
        .collect();
    let (smax, sgc) = (sup.max(), sup.gc());
    let live_before: Vec<chitchat::ChitchatId> = n.live_nodes().cloned().collect();
    let watched_before: Vec<chitchat::ChitchatId> = n.live_nodes_watcher().borrow().keys().cloned().collect();
    let r = guard(|| n.reset_node_state_if_update(xr, kvs.into_iter(), smax, sgc));
    if r.is_ok() {
        // "never makes a member live by itself": neither the failure detector's live set nor the
        // published live-members value may change through the call (no evaluation has run).
        let live_after: Vec<chitchat::ChitchatId> = n.live_nodes().cloned().collect();
        if live_after != live_before {
            return vio("C18/made-live-at-once", format!("the catch-up call itself changed live_nodes() from {} to {} members (no liveness evaluation in between)", live_before.len(), live_after.len()));
        }
        let watched_after: Vec<chitchat::ChitchatId> = n.live_nodes_watcher().borrow().keys().cloned().collect();
        if watched_after != watched_before {
            return vio("C18/made-live-in-watch-channel", format!("the catch-up call itself changed the members listed by the live-members watch channel from {:?} to {:?}", watched_before.iter().map(|i| i.node_id.clone()).collect::<Vec<_>>(), watched_after.iter().map(|i| i.node_id.clone()).collect::<Vec<_>>()));
        }
    }
    if let Err(p) = r {
        return Err(Failure::new(format!("C18/{}", p.signature()), format!("existing {:?}, supplied {:?} (max {smax}, watermark {sgc}): {}", before, sup, p.describe())));
    }
    let after = n.node_state(xr).map(read_spec);
    if removed {
        if after.is_some() {
            return vio("C18/recreated-removed-member", "a member remembered as garbage collected was recreated by the catch-up call".into());
        }
        tally.label("removed_member");
        tally.nontrivial(str_hash(&format!("{sup:?}removed")));
        return Ok(None);
    }
    let b = before.clone().unwrap_or(CopySpec { gc: 0, max: 0, entries: vec![] });
    let Some(a) = after else {
        if before.is_some() {
            return vio("C18/member-vanished", "the member's copy disappeared".into());
        }
        return Ok(None);
    };
    if (a.gc, a.max) < (b.gc, b.max) {
        return vio("C18/frontier-lowered", format!("(watermark, max version) went {:?} -> {:?} (supplied max {smax} watermark {sgc})", (b.gc, b.max), (a.gc, a.max)));
    }
    let unchanged = a == b;
    let passed_guards = b.max < smax && smax >= b.gc;
    if !unchanged {
        // Replacement: key set = supplied key set, newer version per key (existing wins ties).
        let mut want: BTreeMap<u8, (u64, u8)> = BTreeMap::new();
        for e in &supplied {
            let k = e.key % 4;
            match before_entries.get(&k) {
                Some(old) if old.version >= e.version => {
                    want.insert(k, (old.version, old.status));
                }
                _ => {
                    want.insert(k, (e.version, e.status));
                }
            }
        }
        let got: BTreeMap<u8, (u64, u8)> = a.entries.iter().map(|e| (e.key, (e.version, e.status))).collect();
        if got != want {
            return vio("C18/wrong-replacement", format!("copy changed but its entries {:?} are neither the previous ones nor the supplied set merged by version {:?} (before {:?})", got, want, b.entries));
        }
        tally.label("replaced");
    } else {
        tally.label("unchanged");
    }
    if sup.extreme != 0 {
        tally.label("extreme_versions");
    }
    Ok(Some((b, a, passed_guards, supplied)))
}

pub fn exec_catchup(case: &CatchupCase, tally: &mut Tally) -> Result<(), Failure> {
    with_paused_runtime(async {
        let x = member_x();
        let xr = x.to_real();
        let mut n = node("n");
        let mut twin = node("n");
        // The twin goes through exactly the same preparation at the same virtual times.
        if let Err(e) = prepare(case, &mut [&mut n, &mut twin]).await {
            tally.discard(&format!("setup: {}", e.chars().take(50).collect::<String>()));
            return Ok(());
        }
        let removed = matches!(case.existing, Existing::Removed | Existing::RemovedCatchupOnly);
        let before = n.node_state(&xr).map(read_spec);
        let (b, a, passed_guards, supplied) = match one_call(&mut n, &xr, &case.supplied, case.same_values, removed, tally)? {
            Some(r) => r,
            None => return Ok(()),
        };
        if let Some(second) = &case.second {
            // a second call right away (e.g. answers from two peers): same oracles
            if one_call(&mut n, &xr, second, case.same_values, removed, tally)?.is_some() {
                tally.label("second_call");
            }
        }
        let after = n.node_state(&xr).map(read_spec);
        let _ = (&b, &a, &before);
        // Liveness: the call alone must not change the classification at the next evaluation.
        let r = guard(|| {
            n.verif_update_nodes_liveness();
            twin.verif_update_nodes_liveness();
        });
        if let Err(p) = r {
            return vio(&format!("C18/{}", p.signature()), format!("evaluation after the call panicked: {}", p.describe()));
        }
        let live = n.live_nodes().any(|i| *i == xr);
        let twin_live = twin.live_nodes().any(|i| *i == xr);
        if live != twin_live {
            return vio("C18/made-live", format!("after the catch-up call the member is live={live}, on an identical node without the call live={twin_live}"));
        }
        // Follow-up gossip after a well-formed supplied state.
        let well_formed = {
            let mut vs: Vec<u64> = supplied.iter().map(|e| e.version).collect();
            vs.sort();
            let distinct = vs.windows(2).all(|w| w[0] != w[1]);
            distinct && case.second.is_none() && case.supplied.extreme == 0 && supplied.iter().all(|e| e.version >= 1 && e.version <= case.supplied.max_version)
        };
        if let (Some((gc, from, set_max, kvs)), true) = (&case.follow_up, well_formed) {
            let mut ops = vec![WOp::Node { id: x.clone(), last_gc: *gc, from_version: *from }];
            let mut last = *from;
            for e in kvs {
                if e.version > last {
                    last = e.version;
                    ops.push(WOp::Kv(WKv { key: PKEYS[e.key as usize % 4].into(), value: format!("g{}", e.version), version: e.version, status: e.status }));
                }
            }
            if ops.len() == 1 && *set_max > *from {
                ops.push(WOp::SetMax(*set_max));
            }
            let pre = n.node_state(&xr).map(read_spec);
            if let Err(p) = guard(|| feed(&mut n, &WMsg::Ack { ops })) {
                return vio(&format!("C18/{}", p.signature()), format!("gossip after a catch-up call panicked: {}", p.describe()));
            }
            let post = n.node_state(&xr).map(read_spec);
            if let (Some(pre), Some(post)) = (pre, post) {
                if (post.gc, post.max) < (pre.gc, pre.max) {
                    return vio("C18/frontier-lowered", format!("gossip after a catch-up call lowered the frontier {:?} -> {:?}", (pre.gc, pre.max), (post.gc, post.max)));
                }
            }
            tally.label("follow_up_gossip");
        }
        // The copy's own tombstone GC after the grace period must not lower the frontier either
        // (a supplied state may carry tombstones at or below the copy's watermark).
        {
            let pre = n.node_state(&xr).map(read_spec);
            advance_ns(3_600_000_000_000 + 1).await;
            if let Err(p) = guard(|| n.verif_gc_keys_marked_for_deletion()) {
                return vio(&format!("C18/{}", p.signature()), format!("key GC after a catch-up call panicked: {}", p.describe()));
            }
            let post = n.node_state(&xr).map(read_spec);
            if let (Some(pre), Some(post)) = (pre, post) {
                if (post.gc, post.max) < (pre.gc, pre.max) {
                    return vio("C18/frontier-lowered-by-gc-after-catch-up", format!("tombstone GC after a catch-up call lowered the frontier {:?} -> {:?}", (pre.gc, pre.max), (post.gc, post.max)));
                }
            }
        }
        if passed_guards {
            tally.nontrivial(str_hash(&format!("{case:?}")));
            tally.label("passed_guards");
            tally.sample(|| json!({"existing": format!("{:?}", case.existing), "supplied": case.supplied, "after": format!("{:?}", after)}));
        }
        if b.gc > b.max {
            tally.label("existing_mid_reset");
        }
        Ok(())
    })
}

fn entries_strategy(vmax: u64) -> impl Strategy<Value = Vec<EntryS>> {
    proptest::collection::vec((0u8..4, 0..=vmax, 0u8..3), 0..=4).prop_map(|raw| raw.into_iter().map(|(key, version, status)| EntryS { key, version, status }).collect())
}

fn copy_strategy(vmax: u64) -> impl Strategy<Value = CopySpec> {
    (0..=vmax, 0..=vmax, proptest::collection::vec((1..=vmax, 0u8..3), 0..=3)).prop_map(|(gc, max, raw)| {
        let mut versions: Vec<(u64, u8)> = raw.into_iter().filter(|(v, _)| *v <= max).collect();
        versions.sort();
        versions.dedup_by_key(|e| e.0);
        let entries = versions.into_iter().enumerate().map(|(i, (version, status))| EntryS { key: i as u8, version, status: if version <= gc { 0 } else { status } }).collect();
        CopySpec { gc, max, entries }
    })
}

fn supplied_strategy(vmax: u64) -> impl Strategy<Value = Supplied> {
    let supplied = (entries_strategy(vmax + 2), 0..=vmax + 3, 0..=vmax + 3, any::<bool>()).prop_map(|(mut entries, max_version, last_gc_version, consistent)| {
        if consistent {
            // well-formed: distinct versions, all <= max_version, tombstones above the watermark
            let mut used = std::collections::HashSet::new();
            entries.retain(|e| e.version >= 1 && e.version <= max_version && used.insert(e.version));
            for e in entries.iter_mut() {
                if e.version <= last_gc_version {
                    e.status = 0;
                }
            }
        }
        Supplied { entries, max_version, last_gc_version, extreme: 0 }
    });
    (supplied, prop_oneof![12 => Just(0u8), 1 => Just(1u8), 1 => Just(2u8), 1 => Just(3u8)]).prop_map(|(mut s, extreme)| {
        s.extreme = extreme;
        s
    })
}

pub fn case_strategy() -> impl Strategy<Value = CatchupCase> {
    let vmax = 9u64;
    let existing = prop_oneof![
        2 => Just(Existing::Absent),
        2 => Just(Existing::Empty),
        8 => copy_strategy(vmax).prop_map(Existing::Copy),
        1 => Just(Existing::Removed),
        1 => Just(Existing::RemovedCatchupOnly),
    ];
    let supplied = supplied_strategy(vmax);
    let second = proptest::option::weighted(0.3, supplied_strategy(vmax));
    let follow = proptest::option::weighted(0.5, (0..=vmax, 0..=vmax, 0..=vmax + 3, entries_strategy(vmax + 3)));
    (existing, supplied, 0u8..4, follow, second, proptest::bool::weighted(0.3)).prop_map(|(existing, supplied, heartbeats_before, follow_up, second, same_values)| CatchupCase { existing, supplied, heartbeats_before, follow_up, second, same_values })
}

pub fn run(ctx: &Ctx, report: &mut Report) {
    report.push(run_proptest(ctx, "existing-x-supplied", ctx.cases(200_000, 5_000_000), 800, case_strategy, exec_catchup));
}

pub fn replay(ctx: &Ctx, sub: &str, case: &serde_json::Value) -> SubResult {
    replay_case::<CatchupCase, _>(ctx, sub, case, exec_catchup)
}
