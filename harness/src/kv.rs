//! Engine E4: reference versioned map for the local key-value API and tombstone GC
//! (C06, and the local-API part of C04), plus a two-node replica variant.

use std::collections::BTreeMap;
use std::time::Duration;

use chitchat::{Chitchat, NodeState};
use proptest::prelude::*;
use serde::{Deserialize, Serialize};
use serde_json::json;

use crate::common::*;
use crate::util::*;

/// Indices 0..6 are the small alphabet (used by the exhaustive enumeration); the rest are
/// order-boundary keys for the random sequences: the greatest scalar value U+10FFFF (alone,
/// followed by something, after a prefix), U+0000 after a prefix, the last BMP character.
pub const KEYS: [&str; 11] = ["", "a", "ab", "abc", "b", "é", "\u{10FFFF}", "\u{10FFFF}x", "a\u{10FFFF}b", "ab\u{0}", "a\u{FFFF}"];
pub const VALUES: [&str; 3] = ["", "x", "y"];
pub const PREFIXES: [&str; 11] = ["", "a", "ab", "abc", "abcd", "b", "é", "c", "\u{10FFFF}", "a\u{10FFFF}", "a\u{FFFF}"];
pub const GRACE_NS: u64 = 10_000_000_000;

#[derive(Clone, Copy, Debug, PartialEq, Eq, Serialize, Deserialize)]
pub enum KOp {
    Set(u8, u8),
    SetTtl(u8, u8),
    Delete(u8),
    DeleteTtl(u8),
    /// 0: 0, 1: grace-1ns, 2: grace, 3: grace+1ns, 4: 1s, 5: 1ns
    Advance(u8),
    Gc,
    /// Replica variant only: full handshake initiated by the replica.
    Sync,
    /// Replica variant only: GC pass on the replica.
    ReplicaGc,
    /// Replica variant only: the replica is handed the owner's full current state through the
    /// external catch-up entry point.
    ReplicaCatchUp,
    /// Same, but the state travels as a serde snapshot (JSON), as an application would ship it:
    /// statuses survive, the instants a grace period is counted from restart at deserialization.
    ReplicaCatchUpSerde,
}

pub fn advance_amount(kind: u8, grace_ns: u64) -> u64 {
    match kind {
        0 => 0,
        1 => grace_ns.saturating_sub(1),
        2 => grace_ns,
        3 => grace_ns + 1,
        4 => 1_000_000_000,
        _ => 1,
    }
}

/// Grace periods: the default 10 s plus values with a sub-second part, below one second, tiny and zero.
pub const GRACES_NS: [u64; 6] = [GRACE_NS, 1_500_000_000, 400_000_000, 2_000_000_001, 1, 0];

/// The 16-op alphabet enumerated exhaustively.
pub const ALPHABET: [KOp; 16] = [
    KOp::Set(1, 1),
    KOp::Set(1, 2),
    KOp::Set(2, 1),
    KOp::Set(0, 1),
    KOp::Set(5, 1),
    KOp::SetTtl(1, 1),
    KOp::SetTtl(2, 2),
    KOp::Delete(1),
    KOp::Delete(2),
    KOp::DeleteTtl(1),
    KOp::DeleteTtl(2),
    KOp::Advance(1),
    KOp::Advance(5),
    KOp::Advance(2),
    KOp::Gc,
    KOp::Delete(0),
];

#[derive(Clone, Debug, PartialEq, Eq)]
pub struct MEntry {
    pub value: String,
    pub version: u64,
    pub status: u8,
    pub mark_ns: u128,
}

#[derive(Clone, Debug, Default)]
pub struct Model {
    pub map: BTreeMap<String, MEntry>,
    pub max: u64,
    pub gc: u64,
}

impl Model {
    fn visible(e: &MEntry) -> bool {
        e.status != 1
    }
    pub fn get(&self, k: &str) -> Option<&str> {
        self.map.get(k).filter(|e| Self::visible(e)).map(|e| e.value.as_str())
    }
    pub fn gc_pass(&mut self, now_ns: u128, grace_ns: u128) -> usize {
        let mut collected = 0;
        let mut top = self.gc;
        self.map.retain(|_, e| {
            if e.status != 0 && now_ns >= e.mark_ns + grace_ns {
                top = top.max(e.version);
                collected += 1;
                false
            } else {
                true
            }
        });
        self.gc = top;
        collected
    }
}

/// What the statement leaves open for an op; the model follows whichever the implementation did
/// (decided by whether the owner's max version moved), everything else is fixed.
#[derive(PartialEq, Eq, Debug, Clone, Copy)]
enum Effect {
    MustAllocate,
    MustNotAllocate,
    Either,
}

/// Applies a local write op to the model. `allocated` tells whether the implementation allocated
/// a version (only consulted when the statement leaves it open). Returns an error string if the
/// implementation's allocation decision contradicts the statement.
fn model_apply(m: &mut Model, op: KOp, now_ns: u128, allocated: bool) -> Result<(), String> {
    let (key, effect): (&str, Effect) = match op {
        KOp::Set(k, v) => {
            let key = KEYS[k as usize];
            let same = m.map.get(key).map(|e| e.status == 0 && e.value == VALUES[v as usize]).unwrap_or(false);
            (key, if same { Effect::MustNotAllocate } else { Effect::MustAllocate })
        }
        KOp::SetTtl(k, v) => {
            let key = KEYS[k as usize];
            let same = m.map.get(key).map(|e| e.status == 2 && e.value == VALUES[v as usize]).unwrap_or(false);
            (key, if same { Effect::MustNotAllocate } else { Effect::MustAllocate })
        }
        KOp::Delete(k) => {
            let key = KEYS[k as usize];
            match m.map.get(key) {
                None => (key, Effect::MustNotAllocate),
                // Deleting an already deleted key: the statement is silent on whether the
                // tombstone is refreshed.
                Some(e) if e.status == 1 => (key, Effect::Either),
                Some(_) => (key, Effect::MustAllocate),
            }
        }
        KOp::DeleteTtl(k) => {
            let key = KEYS[k as usize];
            match m.map.get(key) {
                None => (key, Effect::MustNotAllocate),
                Some(e) if e.status == 0 => (key, Effect::MustAllocate),
                // Already TTL-marked or already deleted: refreshing or not is left open.
                Some(_) => (key, Effect::Either),
            }
        }
        _ => return Ok(()),
    };
    match effect {
        Effect::MustAllocate if !allocated => {
            return Err(format!("{op:?} is an effective write but no version was allocated"))
        }
        Effect::MustNotAllocate if allocated => {
            return Err(format!("{op:?} must be a no-op but a version was allocated"))
        }
        _ => {}
    }
    if !allocated {
        return Ok(());
    }
    let version = m.max + 1;
    m.max = version;
    match op {
        KOp::Set(_, v) => {
            m.map.insert(key.to_string(), MEntry { value: VALUES[v as usize].into(), version, status: 0, mark_ns: 0 });
        }
        KOp::SetTtl(_, v) => {
            m.map.insert(key.to_string(), MEntry { value: VALUES[v as usize].into(), version, status: 2, mark_ns: now_ns });
        }
        KOp::Delete(_) => {
            let e = m.map.get_mut(key).unwrap();
            e.value = String::new();
            e.version = version;
            e.status = 1;
            e.mark_ns = now_ns;
        }
        KOp::DeleteTtl(_) => {
            let e = m.map.get_mut(key).unwrap();
            e.version = version;
            e.mark_ns = now_ns;
            // A deleted key stays deleted (invisible); a visible key becomes TTL-marked.
            if e.status != 1 {
                e.status = 2;
            }
        }
        _ => {}
    }
    Ok(())
}

fn compare_reads(ns: &NodeState, m: &Model, who: &str) -> Result<(), String> {
    if ns.max_version() != m.max {
        return Err(format!("{who}: max_version {} != model {}", ns.max_version(), m.max));
    }
    if ns.last_gc_version() != m.gc {
        return Err(format!("{who}: last_gc_version {} != model {}", ns.last_gc_version(), m.gc));
    }
    let real_all: Vec<(String, String, u64, u8)> = ns
        .key_values_including_deleted()
        .map(|(k, vv)| (k.to_string(), vv.value.clone(), vv.version, status_code(&vv.status)))
        .collect();
    let model_all: Vec<(String, String, u64, u8)> = m
        .map
        .iter()
        .map(|(k, e)| (k.clone(), e.value.clone(), e.version, e.status))
        .collect();
    if real_all != model_all {
        return Err(format!("{who}: entries {real_all:?} != model {model_all:?}"));
    }
    for k in KEYS {
        if ns.get(k) != m.get(k) {
            return Err(format!("{who}: get({k:?}) = {:?}, model {:?}", ns.get(k), m.get(k)));
        }
        if ns.contains_key(k) != m.get(k).is_some() {
            return Err(format!("{who}: contains_key({k:?}) = {}, model {}", ns.contains_key(k), m.get(k).is_some()));
        }
        let gv = ns.get_versioned(k).map(|vv| (vv.version, status_code(&vv.status)));
        let mv = m.map.get(k).map(|e| (e.version, e.status));
        if gv != mv {
            return Err(format!("{who}: get_versioned({k:?}) = {gv:?}, model {mv:?}"));
        }
    }
    let real_vis: Vec<(String, String)> = ns.key_values().map(|(k, v)| (k.to_string(), v.to_string())).collect();
    let model_vis: Vec<(String, String)> = m.map.iter().filter(|(_, e)| e.status != 1).map(|(k, e)| (k.clone(), e.value.clone())).collect();
    if real_vis != model_vis {
        return Err(format!("{who}: key_values {real_vis:?} != model {model_vis:?}"));
    }
    if ns.num_key_values() != model_vis.len() {
        return Err(format!("{who}: num_key_values {} != model {}", ns.num_key_values(), model_vis.len()));
    }
    for p in PREFIXES {
        let real_p: Vec<(String, String, u64)> = ns.iter_prefix(p).map(|(k, vv)| (k.to_string(), vv.value.clone(), vv.version)).collect();
        let model_p: Vec<(String, String, u64)> = m
            .map
            .iter()
            .filter(|(k, e)| k.starts_with(p) && e.status != 1)
            .map(|(k, e)| (k.clone(), e.value.clone(), e.version))
            .collect();
        if real_p != model_p {
            return Err(format!("{who}: iter_prefix({p:?}) = {real_p:?}, model {model_p:?}"));
        }
    }
    Ok(())
}

#[derive(Clone, Debug, Serialize, Deserialize)]
pub struct KvCase {
    pub ops: Vec<KOp>,
    pub replica: bool,
    /// Index into `GRACES_NS` (0 = 10 s).
    #[serde(default)]
    pub grace: u8,
}

fn fail(sig: &str, msg: String, step: usize, op: KOp) -> Failure {
    Failure::new(sig, format!("step {step} {op:?}: {msg}")).with_detail(json!({"step": step, "op": format!("{op:?}")}))
}

/// Model of what the replica holds after a loss-free handshake with the owner.
fn model_sync(owner: &Model, replica: &mut Model, now_ns: u128) {
    if owner.max <= replica.max {
        return;
    }
    let reset = replica.gc < owner.gc && replica.max < owner.gc;
    let from = if reset { 0 } else { replica.max };
    if reset {
        replica.map.clear();
        replica.max = 0;
        replica.gc = owner.gc;
    }
    let mut entries: Vec<(&String, &MEntry)> = owner.map.iter().filter(|(_, e)| e.version > from).collect();
    entries.sort_by_key(|(_, e)| e.version);
    for (k, e) in entries {
        if e.status != 0 && e.version <= replica.gc {
            continue;
        }
        let keep = replica.map.get(k).map(|old| old.version >= e.version).unwrap_or(false);
        if !keep {
            replica.map.insert(k.clone(), MEntry { value: e.value.clone(), version: e.version, status: e.status, mark_ns: now_ns });
        }
    }
    // A member delta carries either its key-values (its max version is then the last one sent)
    // or, when nothing is left to send, an explicit max version: an owner whose newest versions
    // were all collected needs a second handshake to convey its max version.
    replica.max = owner.map.values().filter(|e| e.version > from).map(|e| e.version).max().unwrap_or(owner.max);
}

pub fn exec_kv(case: &KvCase, tally: &mut Tally, prop: &str) -> Result<(), Failure> {
    let sig_prefix = if prop == "C04" { "C04/local" } else { "C06" };
    with_paused_runtime(async {
        let fd = FdCfg::default();
        let grace_ns = GRACES_NS[case.grace as usize % GRACES_NS.len()];
        let owner_id = simple_id("owner", 0, 7001);
        let mut owner = build_node(&owner_id, "c", Duration::from_nanos(grace_ns), &fd, false, 0).chitchat;
        let mut replica: Option<Chitchat> = if case.replica {
            let id = simple_id("replica", 0, 7002);
            Some(build_node(&id, "c", Duration::from_nanos(grace_ns), &fd, false, 0).chitchat)
        } else {
            None
        };
        let mut m = Model::default();
        let mut rm = Model::default();
        let mut now_ns: u128 = 0;
        let mut collected_with_survivor = false;
        let mut rewrote_marked = false;
        let mut replica_reset_or_gc = false;
        for (step, &op) in case.ops.iter().enumerate() {
            match op {
                KOp::Set(..) | KOp::SetTtl(..) | KOp::Delete(..) | KOp::DeleteTtl(..) => {
                    let key = match op {
                        KOp::Set(k, _) | KOp::SetTtl(k, _) | KOp::Delete(k) | KOp::DeleteTtl(k) => KEYS[k as usize],
                        _ => unreachable!(),
                    };
                    if m.map.get(key).map(|e| e.status != 0).unwrap_or(false) {
                        rewrote_marked = true;
                    }
                    let before = owner.self_node_state().max_version();
                    let r = guard(|| {
                        let ns = owner.self_node_state();
                        match op {
                            KOp::Set(_, v) => ns.set(key, VALUES[v as usize]),
                            KOp::SetTtl(_, v) => ns.set_with_ttl(key, VALUES[v as usize]),
                            KOp::Delete(_) => ns.delete(key),
                            KOp::DeleteTtl(_) => ns.delete_after_ttl(key),
                            _ => {}
                        }
                    });
                    if let Err(p) = r {
                        return Err(fail(&format!("{sig_prefix}/{}", p.signature()), p.describe(), step, op));
                    }
                    let after = owner.self_node_state().max_version();
                    if after != before && after != before + 1 {
                        return Err(fail(&format!("{sig_prefix}/alloc"), format!("max version went {before} -> {after}"), step, op));
                    }
                    if let Err(e) = model_apply(&mut m, op, now_ns, after == before + 1) {
                        return Err(fail(&format!("{sig_prefix}/alloc"), e, step, op));
                    }
                }
                KOp::Advance(kind) => {
                    let ns = advance_amount(kind, grace_ns);
                    advance_ns(ns).await;
                    now_ns += ns as u128;
                }
                KOp::Gc => {
                    let had_marked = m.map.values().filter(|e| e.status != 0).count();
                    if let Err(p) = guard(|| owner.verif_gc_keys_marked_for_deletion()) {
                        return Err(fail(&format!("{sig_prefix}/{}", p.signature()), p.describe(), step, op));
                    }
                    let collected = m.gc_pass(now_ns, grace_ns as u128);
                    if collected > 0 && had_marked > collected {
                        collected_with_survivor = true;
                    }
                    if collected > 0 {
                        tally.label("gc_collected");
                    }
                    if let Some(r) = replica.as_mut() {
                        // The owner's GC entry point also sweeps the owner's copy of the replica (empty).
                        let _ = r;
                    }
                }
                KOp::Sync => {
                    if let Some(r) = replica.as_mut() {
                        let res = guard(|| {
                            let syn = r.verif_create_syn_message();
                            let synack = owner.verif_process_message(syn).expect("synack");
                            let ack = r.verif_process_message(synack).expect("ack");
                            owner.verif_process_message(ack)
                        });
                        if let Err(p) = res {
                            return Err(fail(&format!("{sig_prefix}/{}", p.signature()), p.describe(), step, op));
                        }
                        let gc_before = rm.gc;
                        model_sync(&m, &mut rm, now_ns);
                        if rm.gc > gc_before {
                            replica_reset_or_gc = true;
                            tally.label("replica_reset");
                        }
                    }
                }
                KOp::ReplicaCatchUp | KOp::ReplicaCatchUpSerde => {
                    let via_serde = matches!(op, KOp::ReplicaCatchUpSerde);
                    if let Some(r) = replica.as_mut() {
                        let snapshot: Vec<(String, chitchat::VersionedValue)> = if via_serde {
                            let snap = owner.state_snapshot();
                            let back: Option<chitchat::ClusterStateSnapshot> = serde_json::to_string(&snap).ok().and_then(|j| serde_json::from_str(&j).ok());
                            let Some(back) = back else {
                                tally.discard("snapshot does not survive serde");
                                return Ok(());
                            };
                            let Some(ns) = back.node_states.iter().find(|ns| *ns.chitchat_id() == owner_id) else {
                                tally.discard("owner missing from its own snapshot");
                                return Ok(());
                            };
                            ns.key_values_including_deleted().map(|(k, vv)| (k.to_string(), vv.clone())).collect()
                        } else {
                            owner.self_node_state().key_values_including_deleted().map(|(k, vv)| (k.to_string(), vv.clone())).collect()
                        };
                        let (omax, ogc) = (m.max, m.gc);
                        if let Err(p) = guard(|| r.reset_node_state_if_update(&owner_id, snapshot.into_iter(), omax, ogc)) {
                            // never-panics is C18's statement
                            tally.discard(&format!("catch-up panicked: {}", p.signature()));
                            return Ok(());
                        }
                        // Model: applied only if the supplied max is above the replica's and not
                        // below its watermark; the key set becomes the supplied one, an entry the
                        // replica already holds at the same or a higher version is kept as it is
                        // (including the instant its grace period is counted from); new entries
                        // carry the instants of the supplied values.
                        if rm.max < omax && omax >= rm.gc {
                            let mut next: BTreeMap<String, MEntry> = BTreeMap::new();
                            for (k, e) in &m.map {
                                match rm.map.get(k) {
                                    Some(old) if old.version >= e.version => {
                                        next.insert(k.clone(), old.clone());
                                    }
                                    _ => {
                                        let mut e = e.clone();
                                        if via_serde {
                                            e.mark_ns = now_ns;
                                        }
                                        next.insert(k.clone(), e);
                                    }
                                }
                            }
                            rm.map = next;
                            rm.gc = rm.gc.max(ogc);
                            rm.max = omax.max(rm.max);
                            tally.label("replica_catch_up_applied");
                            replica_reset_or_gc = true;
                        }
                    }
                }
                KOp::ReplicaGc => {
                    if let Some(r) = replica.as_mut() {
                        if let Err(p) = guard(|| r.verif_gc_keys_marked_for_deletion()) {
                            return Err(fail(&format!("{sig_prefix}/{}", p.signature()), p.describe(), step, op));
                        }
                        if rm.gc_pass(now_ns, grace_ns as u128) > 0 {
                            replica_reset_or_gc = true;
                            tally.label("replica_gc_collected");
                        }
                    }
                }
            }
            let ns = owner.self_node_state();
            if let Err(e) = compare_reads(ns, &m, "owner") {
                return Err(fail(&format!("{sig_prefix}/model-mismatch"), e, step, op));
            }
            if let Some(r) = replica.as_ref() {
                if let Some(copy) = r.node_state(&owner_id) {
                    if let Err(e) = compare_reads(copy, &rm, "replica") {
                        return Err(fail(&format!("{sig_prefix}/replica-mismatch"), e, step, op));
                    }
                } else if rm.max != 0 {
                    return Err(fail(&format!("{sig_prefix}/replica-mismatch"), "replica has no copy".into(), step, op));
                }
            }
        }
        if collected_with_survivor || rewrote_marked || replica_reset_or_gc {
            tally.nontrivial(str_hash(&format!("{:?}", case)));
            if collected_with_survivor {
                tally.label("gc_with_younger_survivor");
            }
            if rewrote_marked {
                tally.label("rewrite_of_marked_key");
            }
            tally.sample(|| json!(format!("{:?}", case.ops)));
        }
        Ok(())
    })
}

fn kop_strategy(replica: bool) -> BoxedStrategy<KOp> {
    let k = prop_oneof![5 => 0u8..6, 1 => 6u8..11];
    let v = 0u8..3;
    let mut options: Vec<(u32, BoxedStrategy<KOp>)> = vec![
        (6, (k.clone(), v.clone()).prop_map(|(k, v)| KOp::Set(k, v)).boxed()),
        (4, (k.clone(), v.clone()).prop_map(|(k, v)| KOp::SetTtl(k, v)).boxed()),
        (5, k.clone().prop_map(KOp::Delete).boxed()),
        (4, k.clone().prop_map(KOp::DeleteTtl).boxed()),
        (5, (0u8..6).prop_map(KOp::Advance).boxed()),
        (4, Just(KOp::Gc).boxed()),
    ];
    if replica {
        options.push((5, Just(KOp::Sync).boxed()));
        options.push((3, Just(KOp::ReplicaGc).boxed()));
        options.push((2, Just(KOp::ReplicaCatchUp).boxed()));
        options.push((2, Just(KOp::ReplicaCatchUpSerde).boxed()));
    }
    proptest::strategy::Union::new_weighted(options).boxed()
}

pub fn kv_case_strategy(max_len: usize, replica: bool) -> impl Strategy<Value = KvCase> {
    (proptest::collection::vec(kop_strategy(replica), 1..=max_len), prop_oneof![3 => Just(0u8), 3 => 1u8..6]).prop_map(move |(ops, grace)| KvCase { ops, replica, grace })
}

/// Decodes index `idx` of the enumeration of all sequences of length 1..=max_len.
pub fn nth_sequence(mut idx: u64, max_len: u32) -> Vec<KOp> {
    let a = ALPHABET.len() as u64;
    let mut len = 1u32;
    loop {
        let count = a.pow(len);
        if idx < count || len == max_len {
            break;
        }
        idx -= count;
        len += 1;
    }
    let mut ops = Vec::with_capacity(len as usize);
    for _ in 0..len {
        ops.push(ALPHABET[(idx % a) as usize]);
        idx /= a;
    }
    ops
}

pub fn total_sequences(max_len: u32) -> u64 {
    (1..=max_len).map(|l| (ALPHABET.len() as u64).pow(l)).sum()
}

pub fn run(ctx: &Ctx, report: &mut Report, prop: &'static str) {
    let max_len = ctx.tier.pick(5, 6);
    let total = ((total_sequences(max_len) as f64) * ctx.scale.min(1.0)) as u64;
    let mut sub = run_enumeration(ctx, "exhaustive-sequences", total, |idx, tally| {
        let case = KvCase { ops: nth_sequence(idx, max_len), replica: false, grace: 0 };
        exec_kv(&case, tally, prop).map_err(|f| (f, serde_json::to_value(&case).unwrap()))
    });
    sub.exhaustive = ctx.scale >= 1.0;
    sub.scope = format!("all sequences of length 1..={max_len} over the 16-op alphabet {:?}", ALPHABET);
    report.push(sub);
    let total_b = ((total_sequences(4) as f64) * ctx.scale.min(1.0)) as u64;
    let mut sub_b = run_enumeration(ctx, "exhaustive-sequences-fractional-grace", total_b, |idx, tally| {
        let case = KvCase { ops: nth_sequence(idx, 4), replica: false, grace: 1 };
        exec_kv(&case, tally, prop).map_err(|f| (f, serde_json::to_value(&case).unwrap()))
    });
    sub_b.exhaustive = ctx.scale >= 1.0;
    sub_b.scope = "all sequences of length 1..=4 over the same alphabet with a grace period of 1.5 s".into();
    report.push(sub_b);
    report.push(run_proptest(ctx, "random-owner", ctx.cases(200_000, 5_000_000), 4000, || kv_case_strategy(40, false), |c, t| exec_kv(c, t, prop)));
    report.push(run_proptest(ctx, "random-replica", ctx.cases(100_000, 2_500_000), 4000, || kv_case_strategy(40, true), |c, t| exec_kv(c, t, prop)));
}

pub fn replay(ctx: &Ctx, sub: &str, case: &serde_json::Value, prop: &'static str) -> SubResult {
    replay_case::<KvCase, _>(ctx, sub, case, |c, t| exec_kv(c, t, prop))
}
