//! Independent model of chitchat's wire format: an encoder and a decoder written from the
//! documented layout (magic, version, tag, digest, block-compressed op stream). Shares no code
//! with the crate under test; zstd is used only as a codec.

use std::net::{IpAddr, Ipv4Addr, Ipv6Addr, SocketAddr};

use chitchat::verif::{VerifDelta, VerifMessage, VerifNodeDigest};
use chitchat::ChitchatId;
use serde::{Deserialize, Serialize};

pub const MAGIC: u16 = 45_139;
pub const MAX_DATAGRAM: usize = 65_507;
pub const BLOCK: usize = 16_384;

#[derive(Clone, Debug, PartialEq, Eq, PartialOrd, Ord, Hash, Serialize, Deserialize)]
pub enum WIp {
    V4([u8; 4]),
    V6([u8; 16]),
}

#[derive(Clone, Debug, PartialEq, Eq, PartialOrd, Ord, Hash, Serialize, Deserialize)]
pub struct WId {
    pub node_id: String,
    pub generation: u64,
    pub ip: WIp,
    pub port: u16,
}

impl WId {
    pub fn v4(node_id: &str, generation: u64, port: u16) -> WId {
        WId {
            node_id: node_id.to_string(),
            generation,
            ip: WIp::V4([127, 0, 0, 1]),
            port,
        }
    }
    pub fn to_real(&self) -> ChitchatId {
        let ip: IpAddr = match self.ip {
            WIp::V4(o) => IpAddr::V4(Ipv4Addr::from(o)),
            WIp::V6(o) => IpAddr::V6(Ipv6Addr::from(o)),
        };
        ChitchatId::new(self.node_id.clone(), self.generation, SocketAddr::new(ip, self.port))
    }
    pub fn from_real(id: &ChitchatId) -> WId {
        let ip = match id.gossip_advertise_addr.ip() {
            IpAddr::V4(a) => WIp::V4(a.octets()),
            IpAddr::V6(a) => WIp::V6(a.octets()),
        };
        WId {
            node_id: id.node_id.clone(),
            generation: id.generation_id,
            ip,
            port: id.gossip_advertise_addr.port(),
        }
    }
    pub fn encoded_len(&self) -> usize {
        2 + self.node_id.len() + 8 + 1 + (match self.ip { WIp::V4(_) => 4, WIp::V6(_) => 16 }) + 2
    }
}

#[derive(Clone, Debug, PartialEq, Eq, Serialize, Deserialize)]
pub struct WNodeDigest {
    pub id: WId,
    pub heartbeat: u64,
    pub last_gc: u64,
    pub max_version: u64,
}

#[derive(Clone, Debug, PartialEq, Eq, Serialize, Deserialize)]
pub struct WKv {
    pub key: String,
    pub value: String,
    pub version: u64,
    /// 0 = set, 1 = deleted, 2 = delete-after-ttl
    pub status: u8,
}

#[derive(Clone, Debug, PartialEq, Eq, Serialize, Deserialize)]
pub enum WOp {
    Node { id: WId, last_gc: u64, from_version: u64 },
    Kv(WKv),
    SetMax(u64),
}

/// Normalised per-member content of a delta (what a decoder must reconstruct).
#[derive(Clone, Debug, PartialEq, Eq, Serialize, Deserialize)]
pub struct WNodeDelta {
    pub id: WId,
    pub last_gc: u64,
    pub from_version: u64,
    pub kvs: Vec<WKv>,
    pub max_version: u64,
}

#[derive(Clone, Debug, PartialEq, Eq, Serialize, Deserialize)]
pub enum WMsg {
    Syn { cluster_id: String, digest: Vec<WNodeDigest> },
    SynAck { digest: Vec<WNodeDigest>, ops: Vec<WOp> },
    Ack { ops: Vec<WOp> },
    BadCluster,
}

/// How the op stream is cut into blocks by the independent encoder.
#[derive(Clone, Copy, Debug, PartialEq, Eq, Serialize, Deserialize)]
pub enum Blocking {
    /// Exactly like the documented writer: blocks of `BLOCK` bytes, each stored compressed when
    /// zstd (level 0) fits it in a buffer of the same size, raw otherwise.
    Canonical,
    /// Canonical blocking with another block size (the reference writer for small budgets).
    CanonicalWith(usize),
    /// All blocks raw, of the given size.
    Raw(usize),
    /// All blocks compressed (zstd, unbounded output buffer), of the given size.
    Compressed(usize),
    /// Alternate raw / compressed, of the given size.
    Mixed(usize),
    /// All blocks compressed with zstd's *streaming* API (frames without a declared content
    /// size, as most independent implementations produce), of the given size.
    CompressedStream(usize),
    /// All blocks raw, of the given size, written by an encoder that flushes unconditionally when
    /// it closes the stream: a zero-length raw block precedes the end tag whenever the stream is
    /// empty or an exact multiple of the block size (legal in the layout).
    RawFlushEmpty(usize),
}

// ------------------------------------------------------------------------------------------
// Encoder

fn put_u16(buf: &mut Vec<u8>, v: u16) {
    buf.extend_from_slice(&v.to_le_bytes());
}
fn put_u64(buf: &mut Vec<u8>, v: u64) {
    buf.extend_from_slice(&v.to_le_bytes());
}
fn put_str(buf: &mut Vec<u8>, s: &str) {
    put_u16(buf, s.len() as u16);
    buf.extend_from_slice(s.as_bytes());
}
fn put_id(buf: &mut Vec<u8>, id: &WId) {
    put_str(buf, &id.node_id);
    put_u64(buf, id.generation);
    match id.ip {
        WIp::V4(o) => {
            buf.push(4);
            buf.extend_from_slice(&o);
        }
        WIp::V6(o) => {
            buf.push(6);
            buf.extend_from_slice(&o);
        }
    }
    put_u16(buf, id.port);
}

pub fn encode_op(buf: &mut Vec<u8>, op: &WOp) {
    match op {
        WOp::Node { id, last_gc, from_version } => {
            buf.push(0);
            put_id(buf, id);
            put_u64(buf, *last_gc);
            put_u64(buf, *from_version);
        }
        WOp::Kv(kv) => {
            buf.push(1);
            put_str(buf, &kv.key);
            put_str(buf, &kv.value);
            put_u64(buf, kv.version);
            buf.push(kv.status);
        }
        WOp::SetMax(v) => {
            buf.push(2);
            put_u64(buf, *v);
        }
    }
}

pub fn op_len(op: &WOp) -> usize {
    match op {
        WOp::Node { id, .. } => 1 + id.encoded_len() + 16,
        WOp::Kv(kv) => 1 + 2 + kv.key.len() + 2 + kv.value.len() + 8 + 1,
        WOp::SetMax(_) => 9,
    }
}

pub fn encode_digest(buf: &mut Vec<u8>, digest: &[WNodeDigest]) {
    put_u16(buf, digest.len() as u16);
    for nd in digest {
        put_id(buf, &nd.id);
        put_u64(buf, nd.heartbeat);
        put_u64(buf, nd.last_gc);
        put_u64(buf, nd.max_version);
    }
}

pub fn digest_len(digest: &[WNodeDigest]) -> usize {
    2 + digest.iter().map(|d| d.id.encoded_len() + 24).sum::<usize>()
}

fn zstd_fit(src: &[u8]) -> Option<Vec<u8>> {
    let mut dst = vec![0u8; src.len()];
    match zstd::bulk::compress_to_buffer(src, &mut dst[..], 0) {
        Ok(n) => {
            dst.truncate(n);
            Some(dst)
        }
        Err(_) => None,
    }
}

/// Statistics about how a stream was blocked (for non-triviality labels).
#[derive(Clone, Copy, Debug, Default)]
pub struct BlockStats {
    pub blocks: usize,
    pub raw_blocks: usize,
    pub compressed_blocks: usize,
}

pub fn encode_stream(buf: &mut Vec<u8>, ops: &[WOp], blocking: Blocking) -> BlockStats {
    let mut raw = Vec::new();
    for op in ops {
        encode_op(&mut raw, op);
    }
    encode_raw_stream(buf, &raw, blocking)
}

pub fn encode_raw_stream(buf: &mut Vec<u8>, raw: &[u8], blocking: Blocking) -> BlockStats {
    let mut stats = BlockStats::default();
    let size = match blocking {
        Blocking::Canonical => BLOCK,
        Blocking::CanonicalWith(n) | Blocking::Raw(n) | Blocking::Compressed(n) | Blocking::Mixed(n) | Blocking::CompressedStream(n) | Blocking::RawFlushEmpty(n) => n.clamp(1, 65_535),
    };
    for (i, chunk) in raw.chunks(size).enumerate() {
        stats.blocks += 1;
        let compressed: Option<Vec<u8>> = match blocking {
            Blocking::Canonical | Blocking::CanonicalWith(_) => zstd_fit(chunk),
            Blocking::Raw(_) | Blocking::RawFlushEmpty(_) => None,
            Blocking::Compressed(_) => zstd::bulk::compress(chunk, 0).ok().filter(|c| c.len() <= 65_535),
            Blocking::CompressedStream(_) => {
                use std::io::Write;
                let mut enc = zstd::stream::Encoder::new(Vec::new(), 0).ok();
                let out = enc.take().and_then(|mut e| {
                    e.write_all(chunk).ok()?;
                    e.finish().ok()
                });
                out.filter(|c| c.len() <= 65_535)
            }
            Blocking::Mixed(_) => {
                if i % 2 == 0 {
                    None
                } else {
                    zstd::bulk::compress(chunk, 0).ok().filter(|c| c.len() <= 65_535)
                }
            }
        };
        match compressed {
            Some(c) => {
                stats.compressed_blocks += 1;
                buf.push(1);
                put_u16(buf, c.len() as u16);
                buf.extend_from_slice(&c);
            }
            None => {
                stats.raw_blocks += 1;
                buf.push(2);
                put_u16(buf, chunk.len() as u16);
                buf.extend_from_slice(chunk);
            }
        }
    }
    if matches!(blocking, Blocking::RawFlushEmpty(_)) && raw.len() % size == 0 {
        stats.blocks += 1;
        stats.raw_blocks += 1;
        buf.push(2);
        put_u16(buf, 0);
    }
    buf.push(0);
    stats
}

pub fn encode_msg(msg: &WMsg, blocking: Blocking) -> (Vec<u8>, BlockStats) {
    let mut buf = Vec::new();
    put_u16(&mut buf, MAGIC);
    buf.push(0); // protocol version
    let mut stats = BlockStats::default();
    match msg {
        WMsg::Syn { cluster_id, digest } => {
            buf.push(0);
            encode_digest(&mut buf, digest);
            put_str(&mut buf, cluster_id);
        }
        WMsg::SynAck { digest, ops } => {
            buf.push(1);
            encode_digest(&mut buf, digest);
            stats = encode_stream(&mut buf, ops, blocking);
        }
        WMsg::Ack { ops } => {
            buf.push(2);
            stats = encode_stream(&mut buf, ops, blocking);
        }
        WMsg::BadCluster => {
            buf.push(3);
        }
    }
    (buf, stats)
}

// ------------------------------------------------------------------------------------------
// Decoder

pub struct Cursor<'a> {
    pub buf: &'a [u8],
    pub pos: usize,
}

impl<'a> Cursor<'a> {
    pub fn new(buf: &'a [u8]) -> Self {
        Cursor { buf, pos: 0 }
    }
    fn take(&mut self, n: usize) -> Result<&'a [u8], String> {
        if self.buf.len() - self.pos < n {
            return Err(format!("short read: need {n} at {}", self.pos));
        }
        let s = &self.buf[self.pos..self.pos + n];
        self.pos += n;
        Ok(s)
    }
    fn u8(&mut self) -> Result<u8, String> {
        Ok(self.take(1)?[0])
    }
    fn u16(&mut self) -> Result<u16, String> {
        let s = self.take(2)?;
        Ok(u16::from_le_bytes([s[0], s[1]]))
    }
    fn u64(&mut self) -> Result<u64, String> {
        let s = self.take(8)?;
        Ok(u64::from_le_bytes(s.try_into().unwrap()))
    }
    fn string(&mut self) -> Result<String, String> {
        let n = self.u16()? as usize;
        let s = self.take(n)?;
        std::str::from_utf8(s).map(|s| s.to_string()).map_err(|e| format!("utf8: {e}"))
    }
    fn id(&mut self) -> Result<WId, String> {
        let node_id = self.string()?;
        let generation = self.u64()?;
        let ip = match self.u8()? {
            4 => WIp::V4(self.take(4)?.try_into().unwrap()),
            6 => WIp::V6(self.take(16)?.try_into().unwrap()),
            t => return Err(format!("bad ip tag {t}")),
        };
        let port = self.u16()?;
        Ok(WId { node_id, generation, ip, port })
    }
    fn remaining(&self) -> usize {
        self.buf.len() - self.pos
    }
}

pub fn decode_digest(c: &mut Cursor) -> Result<Vec<WNodeDigest>, String> {
    let n = c.u16()?;
    let mut out = Vec::with_capacity(n as usize);
    for _ in 0..n {
        let id = c.id()?;
        let heartbeat = c.u64()?;
        let last_gc = c.u64()?;
        let max_version = c.u64()?;
        out.push(WNodeDigest { id, heartbeat, last_gc, max_version });
    }
    Ok(out)
}

pub fn decode_op(c: &mut Cursor) -> Result<WOp, String> {
    match c.u8()? {
        0 => {
            let id = c.id()?;
            let last_gc = c.u64()?;
            let from_version = c.u64()?;
            Ok(WOp::Node { id, last_gc, from_version })
        }
        1 => {
            let key = c.string()?;
            let value = c.string()?;
            let version = c.u64()?;
            let status = c.u8()?;
            if status > 2 {
                return Err(format!("bad status {status}"));
            }
            Ok(WOp::Kv(WKv { key, value, version, status }))
        }
        2 => Ok(WOp::SetMax(c.u64()?)),
        t => Err(format!("bad op tag {t}")),
    }
}

pub fn decode_stream(c: &mut Cursor) -> Result<(Vec<WOp>, BlockStats), String> {
    let mut raw = Vec::new();
    let mut stats = BlockStats::default();
    loop {
        match c.u8()? {
            0 => break,
            1 => {
                let n = c.u16()? as usize;
                let block = c.take(n)?;
                let out = zstd::bulk::decompress(block, 65_535).map_err(|e| format!("zstd: {e}"))?;
                raw.extend_from_slice(&out);
                stats.blocks += 1;
                stats.compressed_blocks += 1;
            }
            2 => {
                let n = c.u16()? as usize;
                raw.extend_from_slice(c.take(n)?);
                stats.blocks += 1;
                stats.raw_blocks += 1;
            }
            t => return Err(format!("bad block tag {t}")),
        }
    }
    let mut oc = Cursor::new(&raw);
    let mut ops = Vec::new();
    while oc.remaining() > 0 {
        ops.push(decode_op(&mut oc)?);
    }
    Ok((ops, stats))
}

pub struct Decoded {
    pub msg: WMsg,
    pub consumed: usize,
    pub stats: BlockStats,
    /// Byte length of the delta part (announced `serialized_len` of the delta), if any.
    pub delta_len: usize,
}

pub fn decode_msg(bytes: &[u8]) -> Result<Decoded, String> {
    let mut c = Cursor::new(bytes);
    if c.u16()? != MAGIC {
        return Err("bad magic".into());
    }
    if c.u8()? != 0 {
        return Err("bad protocol version".into());
    }
    let mut stats = BlockStats::default();
    let mut delta_len = 0;
    let msg = match c.u8()? {
        0 => {
            let digest = decode_digest(&mut c)?;
            let cluster_id = c.string()?;
            WMsg::Syn { cluster_id, digest }
        }
        1 => {
            let digest = decode_digest(&mut c)?;
            let start = c.pos;
            let (ops, s) = decode_stream(&mut c)?;
            stats = s;
            delta_len = c.pos - start;
            WMsg::SynAck { digest, ops }
        }
        2 => {
            let start = c.pos;
            let (ops, s) = decode_stream(&mut c)?;
            stats = s;
            delta_len = c.pos - start;
            WMsg::Ack { ops }
        }
        3 => WMsg::BadCluster,
        t => return Err(format!("bad message tag {t}")),
    };
    Ok(Decoded { msg, consumed: c.pos, stats, delta_len })
}

// ------------------------------------------------------------------------------------------
// Grouping ops into per-member deltas (specification of the op stream semantics)

/// Groups an op stream the way the format documents it: a member header opens a member, key-values
/// must follow a header with strictly increasing versions, a max-version op sets the member's max
/// version. Errors describe streams no honest encoder produces.
pub fn group_ops(ops: &[WOp]) -> Result<Vec<WNodeDelta>, String> {
    let mut out: Vec<WNodeDelta> = Vec::new();
    let mut seen: Vec<WId> = Vec::new();
    for op in ops {
        match op {
            WOp::Node { id, last_gc, from_version } => {
                if seen.contains(id) {
                    return Err("duplicate member".into());
                }
                seen.push(id.clone());
                out.push(WNodeDelta {
                    id: id.clone(),
                    last_gc: *last_gc,
                    from_version: *from_version,
                    kvs: Vec::new(),
                    max_version: 0,
                });
            }
            WOp::Kv(kv) => {
                let Some(cur) = out.last_mut() else {
                    return Err("kv before member".into());
                };
                if kv.version <= cur.max_version {
                    return Err("kv versions not increasing".into());
                }
                cur.max_version = kv.version;
                cur.kvs.push(kv.clone());
            }
            WOp::SetMax(v) => {
                let Some(cur) = out.last_mut() else {
                    return Err("set-max before member".into());
                };
                if *v < cur.max_version {
                    return Err("explicit max version below a preceding key-value".into());
                }
                cur.max_version = *v;
            }
        }
    }
    Ok(out)
}

/// Honest op form of per-member deltas.
pub fn ungroup(deltas: &[WNodeDelta]) -> Vec<WOp> {
    let mut ops = Vec::new();
    for d in deltas {
        ops.push(WOp::Node { id: d.id.clone(), last_gc: d.last_gc, from_version: d.from_version });
        for kv in &d.kvs {
            ops.push(WOp::Kv(kv.clone()));
        }
        if d.kvs.is_empty() && d.max_version > 0 {
            ops.push(WOp::SetMax(d.max_version));
        }
    }
    ops
}

// ------------------------------------------------------------------------------------------
// Conversions from the facade's mirror structs

pub fn digest_from_verif(d: &[VerifNodeDigest]) -> Vec<WNodeDigest> {
    d.iter()
        .map(|nd| WNodeDigest {
            id: WId::from_real(&nd.chitchat_id),
            heartbeat: nd.heartbeat,
            last_gc: nd.last_gc_version,
            max_version: nd.max_version,
        })
        .collect()
}

pub fn deltas_from_verif(d: &VerifDelta) -> Vec<WNodeDelta> {
    d.node_deltas
        .iter()
        .map(|nd| WNodeDelta {
            id: WId::from_real(&nd.chitchat_id),
            last_gc: nd.last_gc_version,
            from_version: nd.from_version_excluded,
            max_version: nd.max_version,
            kvs: nd
                .key_values
                .iter()
                .map(|kv| WKv {
                    key: kv.key.clone(),
                    value: kv.value.clone(),
                    version: kv.version,
                    status: kv.status,
                })
                .collect(),
        })
        .collect()
}

/// A message in normalised form (digest sorted by the real id order is the caller's business).
#[derive(Clone, Debug, PartialEq, Eq)]
pub enum NMsg {
    Syn { cluster_id: String, digest: Vec<WNodeDigest> },
    SynAck { digest: Vec<WNodeDigest>, deltas: Vec<WNodeDelta> },
    Ack { deltas: Vec<WNodeDelta> },
    BadCluster,
}

pub fn normalise_verif(m: &VerifMessage) -> NMsg {
    match m {
        VerifMessage::Syn { cluster_id, digest } => NMsg::Syn {
            cluster_id: cluster_id.clone(),
            digest: digest_from_verif(digest),
        },
        VerifMessage::SynAck { digest, delta } => NMsg::SynAck {
            digest: digest_from_verif(digest),
            deltas: deltas_from_verif(delta),
        },
        VerifMessage::Ack { delta } => NMsg::Ack { deltas: deltas_from_verif(delta) },
        VerifMessage::BadCluster => NMsg::BadCluster,
    }
}

/// Normalises a model message; the digest is de-duplicated (last entry wins) and sorted in the
/// order of the real id type, as a map keyed by id would hold it.
pub fn normalise_model(m: &WMsg) -> Result<NMsg, String> {
    fn norm_digest(d: &[WNodeDigest]) -> Vec<WNodeDigest> {
        let mut map: std::collections::BTreeMap<ChitchatId, WNodeDigest> = Default::default();
        for nd in d {
            map.insert(nd.id.to_real(), nd.clone());
        }
        map.into_values().collect()
    }
    Ok(match m {
        WMsg::Syn { cluster_id, digest } => NMsg::Syn {
            cluster_id: cluster_id.clone(),
            digest: norm_digest(digest),
        },
        WMsg::SynAck { digest, ops } => NMsg::SynAck {
            digest: norm_digest(digest),
            deltas: group_ops(ops)?,
        },
        WMsg::Ack { ops } => NMsg::Ack { deltas: group_ops(ops)? },
        WMsg::BadCluster => NMsg::BadCluster,
    })
}

pub fn sort_digest_real_order(d: &mut Vec<WNodeDigest>) {
    d.sort_by(|a, b| a.id.to_real().cmp(&b.id.to_real()));
}
