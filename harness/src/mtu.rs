//! C07: replies fit one datagram; truncation only cuts the tail; exact content per member.

use std::collections::BTreeMap;

use chitchat::{Chitchat, ChitchatMessage, Serializable};
use proptest::prelude::*;
use serde::{Deserialize, Serialize};
use serde_json::json;

use crate::common::*;
use crate::statebuild::*;
use crate::util::*;
use crate::wire::*;

#[derive(Clone, Debug, Serialize, Deserialize)]
pub struct DigestEntrySpec {
    /// 0 absent, 1 equal, 2 behind by k, 3 ahead by k, 4 zero
    pub mode: u8,
    pub k: u8,
    /// 0: 0, 1: sender's watermark, 2: watermark - 1, 3: watermark + 1, 4: max_d (mid-reset-ish)
    pub gc_mode: u8,
}

#[derive(Clone, Debug, Serialize, Deserialize)]
pub struct MtuCase {
    pub state: StateSpec,
    pub digest: Vec<DigestEntrySpec>,
    pub unknown_members: u8,
    /// Budgets for the facade sweep (clamped to 100..=65_507).
    pub budgets: Vec<u32>,
}

pub fn build_peer_digest(copies: &BTreeMap<WId, MemberModel>, specs: &[DigestEntrySpec], unknown: u8) -> Vec<WNodeDigest> {
    let mut out = Vec::new();
    for (i, (id, c)) in copies.iter().enumerate() {
        let spec = if specs.is_empty() { DigestEntrySpec { mode: 0, k: 0, gc_mode: 0 } } else { specs[i % specs.len()].clone() };
        let max_d = match spec.mode {
            0 => continue,
            1 => c.max,
            2 => c.max.saturating_sub(spec.k as u64 + 1),
            3 => c.max + spec.k as u64 + 1,
            _ => 0,
        };
        let gc_d = match spec.gc_mode {
            0 => 0,
            1 => c.gc,
            2 => c.gc.saturating_sub(1),
            3 => c.gc + 1,
            _ => max_d,
        };
        out.push(WNodeDigest { id: id.clone(), heartbeat: c.heartbeat, last_gc: gc_d, max_version: max_d });
    }
    for u in 0..unknown {
        out.push(WNodeDigest { id: WId::v4(&format!("unknown{u}"), 7, 20_000 + u as u16), heartbeat: 3, last_gc: u as u64, max_version: 10 + u as u64 });
    }
    out
}

pub struct ReplyFacts {
    pub truncated: bool,
    pub members_included: usize,
    pub raw_blocks: usize,
    pub blocks: usize,
}

/// Checks a delta (decoded independently) against the sender's copies and the peer digest.
pub fn check_delta_exact(
    deltas: &[WNodeDelta],
    copies: &BTreeMap<WId, MemberModel>,
    digest: &[WNodeDigest],
    scheduled: &[WId],
) -> Result<ReplyFacts, (String, String)> {
    let dmap: BTreeMap<&WId, &WNodeDigest> = digest.iter().map(|d| (&d.id, d)).collect();
    let mut truncated = false;
    let mut seen = std::collections::HashSet::new();
    for (pos, d) in deltas.iter().enumerate() {
        let is_last = pos + 1 == deltas.len();
        if !seen.insert(d.id.clone()) {
            return Err(("C07/duplicate-member".into(), format!("member {:?} appears twice", d.id.node_id)));
        }
        if scheduled.contains(&d.id) {
            return Err(("C07/scheduled-member-included".into(), format!("member {:?} is scheduled for deletion but is in the delta", d.id.node_id)));
        }
        let Some(c) = copies.get(&d.id) else {
            return Err(("C07/unknown-member-included".into(), format!("member {:?} is not held by the sender", d.id.node_id)));
        };
        let _ = (is_last, &dmap);
        // Exactly the sender's entries whose versions lie in (announced start, delta max version],
        // ascending, nothing at or below the start. Which start is announced (incremental or
        // from 0) and the header watermark are C14's business, not C07's.
        let from = d.from_version;
        let delta_max = if d.kvs.is_empty() { d.max_version } else { d.kvs.last().unwrap().version.max(d.max_version) };
        let owed_all: Vec<&WKv> = c.entries.iter().filter(|e| e.version > from).collect();
        let owed: Vec<&WKv> = owed_all.iter().copied().filter(|e| e.version <= delta_max).collect();
        if d.kvs.len() != owed.len() {
            return Err((
                "C07/interval-not-exact".into(),
                format!(
                    "member {:?}: the delta announces ({from}, {delta_max}] and carries {} key-values, but the sender holds {} entries in that interval (versions {:?})",
                    d.id.node_id,
                    d.kvs.len(),
                    owed.len(),
                    owed.iter().map(|e| e.version).collect::<Vec<_>>()
                ),
            ));
        }
        for (i, kv) in d.kvs.iter().enumerate() {
            if kv != owed[i] {
                return Err((
                    "C07/content-mismatch".into(),
                    format!(
                        "member {:?}: key-value #{i} is ({:?}, v{}, status {}, {} bytes) but the sender's #{i} entry above {} is ({:?}, v{}, status {}, {} bytes)",
                        d.id.node_id, kv.key, kv.version, kv.status, kv.value.len(), from, owed[i].key, owed[i].version, owed[i].status, owed[i].value.len()
                    ),
                ));
            }
        }
        if d.kvs.len() < owed_all.len() || (owed_all.is_empty() && d.max_version == 0 && c.max > from) {
            truncated = true;
        }
    }
    // Anything owed but absent means the reply was cut.
    for (id, c) in copies {
        if scheduled.contains(id) || seen.contains(id) {
            continue;
        }
        let max_d = dmap.get(id).map(|x| x.max_version).unwrap_or(0);
        if c.max > max_d {
            truncated = true;
        }
    }
    Ok(ReplyFacts { truncated, members_included: deltas.len(), raw_blocks: 0, blocks: 0 })
}

fn vio<T>(sig: &str, msg: String) -> Result<T, Failure> {
    Err(Failure::new(sig, msg))
}

/// Checks one reply message produced by the real node.
pub fn check_reply(
    reply: &ChitchatMessage,
    limit: usize,
    copies: &BTreeMap<WId, MemberModel>,
    digest: &[WNodeDigest],
    scheduled: &[WId],
    tally: &mut Tally,
    what: &str,
) -> Result<ReplyFacts, Failure> {
    let announced = reply.serialized_len();
    let bytes = match guard(|| real_encode(reply)) {
        Ok(b) => b,
        Err(p) => return vio(&format!("C07/{}", p.signature()), format!("{what}: serialization panicked: {}", p.describe())),
    };
    if bytes.len() > limit {
        return vio("C07/oversize", format!("{what}: reply serializes to {} bytes > limit {}", bytes.len(), limit));
    }
    if announced != bytes.len() {
        return vio("C07/announced-length", format!("{what}: announced {} bytes, wrote {}", announced, bytes.len()));
    }
    let decoded = match decode_msg(&bytes) {
        Ok(d) => d,
        Err(e) => return vio("C07/undecodable-reply", format!("{what}: independent decoder rejects the reply: {e}")),
    };
    if decoded.consumed != bytes.len() {
        return vio("C07/trailing-bytes", format!("{what}: {} trailing bytes", bytes.len() - decoded.consumed));
    }
    let ops = match &decoded.msg {
        WMsg::SynAck { ops, .. } | WMsg::Ack { ops } => ops,
        other => return vio("C07/wrong-reply-kind", format!("{what}: unexpected reply {other:?}")),
    };
    let deltas = match group_ops(ops) {
        Ok(d) => d,
        Err(e) => return vio("C07/malformed-op-stream", format!("{what}: {e}")),
    };
    if let WMsg::SynAck { digest: own_digest, .. } = &decoded.msg {
        for nd in own_digest {
            if scheduled.contains(&nd.id) {
                return vio("C07/scheduled-member-in-digest", format!("{what}: member {:?} scheduled for deletion is in the digest", nd.id.node_id));
            }
        }
    }
    let mut facts = match check_delta_exact(&deltas, copies, digest, scheduled) {
        Ok(f) => f,
        Err((sig, msg)) => return vio(&sig, format!("{what}: {msg}")),
    };
    facts.raw_blocks = decoded.stats.raw_blocks;
    facts.blocks = decoded.stats.blocks;
    let slack = limit - bytes.len();
    tally.max("reply_len", bytes.len() as u64);
    if facts.truncated {
        tally.label("truncated_reply");
        let bucket = match slack {
            0..=3 => "slack_0_3",
            4..=15 => "slack_4_15",
            16..=63 => "slack_16_63",
            64..=1023 => "slack_64_1023",
            _ => "slack_1024_plus",
        };
        tally.label(bucket);
    }
    if facts.raw_blocks > 0 {
        tally.label("reply_with_raw_block");
    }
    if facts.blocks >= 2 {
        tally.label("reply_multi_block");
    }
    Ok(facts)
}

fn syn_message(digest: &[WNodeDigest]) -> Result<ChitchatMessage, Failure> {
    let mut d = digest.to_vec();
    sort_digest_real_order(&mut d);
    let (bytes, _) = encode_msg(&WMsg::Syn { cluster_id: "cluster".into(), digest: d }, Blocking::Canonical);
    real_decode(&bytes).map(|(m, _)| m).map_err(|e| Failure::new("C07/setup-syn-undecodable", e))
}

fn synack_message(digest: &[WNodeDigest]) -> Result<ChitchatMessage, Failure> {
    let mut d = digest.to_vec();
    sort_digest_real_order(&mut d);
    let (bytes, _) = encode_msg(&WMsg::SynAck { digest: d, ops: vec![] }, Blocking::Canonical);
    real_decode(&bytes).map(|(m, _)| m).map_err(|e| Failure::new("C07/setup-synack-undecodable", e))
}

pub fn exec_mtu(case: &MtuCase, tally: &mut Tally) -> Result<(), Failure> {
    with_paused_runtime(async {
        let fd = FdCfg::default();
        let built = match guard_async_build(&case.state, &fd).await {
            Ok(b) => b,
            Err(e) => {
                tally.discard(&format!("setup: {}", e.chars().take(60).collect::<String>()));
                return Ok(());
            }
        };
        let mut node: Chitchat = built.node;
        let scheduled: Vec<WId> = built.members.iter().take(built.aged).map(|m| m.id.clone()).collect();
        let copies = all_copies(&node);
        let digest = build_peer_digest(&copies, &case.digest, case.unknown_members);
        let mut nontrivial = false;

        // (ii) facade sweep, on the state before any reply-induced change (process_message only
        // bumps the own heartbeat and may add unknown digest members).
        let syn = syn_message(&digest)?;
        for &b in &case.budgets {
            let mtu = (b as usize).clamp(100, MAX_DATAGRAM);
            let reply = match guard(|| node.verif_compute_delta(&syn, mtu)) {
                Ok(Some(r)) => r,
                Ok(None) => continue,
                Err(p) => return vio(&format!("C07/{}", p.signature()), format!("compute_delta(mtu={mtu}) panicked: {}", p.describe())),
            };
            // Ack framing adds 4 bytes of header around the delta.
            let facts = check_reply(&reply, mtu + 4, &copies, &digest, &scheduled, tally, &format!("facade budget {mtu}"))?;
            tally.label("facade_budget");
            if facts.truncated || facts.raw_blocks > 0 {
                nontrivial = true;
            }
        }

        // (i) real replies. ACK first (SynAck processing with an empty delta changes nothing but
        // the heartbeat and possibly adds unknown members, which have max version 0).
        let synack = synack_message(&digest)?;
        let reply = match guard(|| node.verif_process_message(synack)) {
            Ok(Some(r)) => r,
            Ok(None) => return vio("C07/no-ack", "SynAck produced no Ack".into()),
            Err(p) => return vio(&format!("C07/{}", p.signature()), format!("processing SynAck panicked: {}", p.describe())),
        };
        let copies2 = all_copies(&node);
        let facts = check_reply(&reply, MAX_DATAGRAM, &copies2, &digest, &scheduled, tally, "ACK")?;
        if facts.truncated || facts.raw_blocks > 0 {
            nontrivial = true;
        }
        let syn = syn_message(&digest)?;
        let reply = match guard(|| node.verif_process_message(syn)) {
            Ok(Some(r)) => r,
            Ok(None) => return vio("C07/no-synack", "Syn produced no SynAck".into()),
            Err(p) => return vio(&format!("C07/{}", p.signature()), format!("processing Syn panicked: {}", p.describe())),
        };
        let copies3 = all_copies(&node);
        let facts = check_reply(&reply, MAX_DATAGRAM, &copies3, &digest, &scheduled, tally, "SYN-ACK")?;
        if facts.truncated || facts.raw_blocks > 0 {
            nontrivial = true;
        }
        tally.label_n("members", copies3.len() as u64);
        if !scheduled.is_empty() {
            tally.label("has_scheduled_members");
        }
        if nontrivial {
            tally.nontrivial(str_hash(&format!("{:?}", case)));
            tally.sample(|| {
                json!({
                    "own_entries": case.state.own.len(),
                    "members": case.state.members.iter().map(|m| m.entries.len()).collect::<Vec<_>>(),
                    "digest": case.digest.iter().take(6).map(|d| format!("{d:?}")).collect::<Vec<_>>(),
                    "budgets": case.budgets,
                })
            });
        }
        Ok(())
    })
}

async fn guard_async_build(spec: &StateSpec, fd: &FdCfg) -> Result<BuiltState, String> {
    // build_state only awaits clock advances; panics inside are reported as setup failures.
    build_state(spec, fd).await
}

pub fn digest_spec_strategy() -> impl Strategy<Value = DigestEntrySpec> {
    (prop_oneof![3 => Just(0u8), 2 => Just(1u8), 4 => Just(2u8), 1 => Just(3u8), 2 => Just(4u8)], 0u8..12, 0u8..5)
        .prop_map(|(mode, k, gc_mode)| DigestEntrySpec { mode, k, gc_mode })
}

pub fn case_strategy() -> impl Strategy<Value = MtuCase> {
    (
        state_strategy(),
        proptest::collection::vec(digest_spec_strategy(), 0..6),
        0u8..3,
        proptest::collection::vec(prop_oneof![3 => 100u32..2_000, 2 => 2_000u32..20_000, 2 => 16_300u32..16_500, 2 => 20_000u32..65_508, 1 => 32_700u32..32_850], 0..6),
    )
        .prop_map(|(state, digest, unknown_members, budgets)| MtuCase { state, digest, unknown_members, budgets })
}

// ------------------------------------------------------------------------------------------
// Boundary-directed search: own namespace only, values sized so that the reply lands at the limit.

#[derive(Clone, Debug, Serialize, Deserialize)]
pub struct BoundaryCase {
    /// Content class of the values (1..=4).
    pub class: u8,
    /// Length of every value except the last.
    pub value_len: u32,
    /// Number of keys before the last one.
    pub keys: u16,
    pub seed: u16,
    /// Peer knows the first `known` versions already (shifts block boundaries).
    pub known: u8,
    /// true: reply to a SYN (own digest present), false: ACK path.
    pub synack: bool,
    /// The sender also holds a member whose copy has no entries but a high max version: it is
    /// offered last, as a member header followed by an explicit max version (the 9-byte tail).
    #[serde(default)]
    pub tail_member: bool,
    /// Members mentioned by the peer's SYN that the sender does not know yet (they enlarge the
    /// sender's own digest between receiving the SYN and answering it).
    #[serde(default)]
    pub unknown_in_syn: u8,
}

fn reply_len_for(case: &BoundaryCase, last_len: usize, tally: &mut Tally, check: bool) -> Result<(usize, bool), Failure> {
    // Returns (reply length, last key included).
    let fd = FdCfg::default();
    let self_id = simple_id("self", 1, 9000);
    let mut node = build_node(&self_id, "cluster", std::time::Duration::from_secs(3600), &fd, false, 0).chitchat;
    for i in 0..case.keys {
        node.self_node_state().set(format!("k{i:04}"), expand_value(case.class, case.value_len as usize, case.seed as u64 + i as u64));
    }
    node.self_node_state().set("zlast", expand_value(case.class, last_len, case.seed as u64 + 7777));
    if case.tail_member {
        let tail = WId::v4("tail", 0, 9500);
        let intro = WMsg::Syn { cluster_id: "cluster".into(), digest: vec![WNodeDigest { id: tail.clone(), heartbeat: 5, last_gc: 0, max_version: 0 }] };
        let fill = WMsg::Ack { ops: vec![WOp::Node { id: tail.clone(), last_gc: 0, from_version: 0 }, WOp::SetMax(1_000_000)] };
        for m in [intro, fill] {
            let (bytes, _) = encode_msg(&m, Blocking::Canonical);
            let (msg, _) = real_decode(&bytes).map_err(|e| Failure::new("C07/setup", e))?;
            node.verif_process_message(msg);
        }
        if node.node_state(&tail.to_real()).map(|ns| ns.max_version()) != Some(1_000_000) {
            return vio("C07/setup", "cannot install the tail member".into());
        }
    }
    let copies = all_copies(&node);
    let mut digest = vec![WNodeDigest { id: WId::from_real(&self_id), heartbeat: 1, last_gc: 0, max_version: (case.known as u64).min(case.keys as u64) }];
    for u in 0..case.unknown_in_syn {
        digest.push(WNodeDigest { id: WId::v4(&format!("newcomer-{u:02}-{}", "n".repeat((u as usize * 7) % 40)), u as u64, 9600 + u as u16), heartbeat: 2, last_gc: 0, max_version: 0 });
    }
    let msg = if case.synack { syn_message(&digest)? } else { synack_message(&digest)? };
    let reply = match guard(|| node.verif_process_message(msg)) {
        Ok(Some(r)) => r,
        Ok(None) => return vio("C07/no-reply", "no reply".into()),
        Err(p) => return vio(&format!("C07/{}", p.signature()), format!("processing panicked: {}", p.describe())),
    };
    if check {
        let copies2 = all_copies(&node);
        let _ = copies;
        check_reply(&reply, MAX_DATAGRAM, &copies2, &digest, &[], tally, &format!("boundary last_len={last_len}"))?;
    }
    let bytes = match guard(|| real_encode(&reply)) {
        Ok(b) => b,
        Err(p) => return vio(&format!("C07/{}", p.signature()), format!("serialization panicked: {}", p.describe())),
    };
    let included = match decode_msg(&bytes) {
        Ok(d) => match d.msg {
            WMsg::SynAck { ops, .. } | WMsg::Ack { ops } => ops.iter().any(|op| matches!(op, WOp::Kv(kv) if kv.key == "zlast")),
            _ => false,
        },
        Err(_) => false,
    };
    Ok((bytes.len(), included))
}

pub fn exec_boundary(case: &BoundaryCase, tally: &mut Tally) -> Result<(), Failure> {
    with_paused_runtime(async {
        // Size the state so that everything but the last key nearly fills the datagram.
        let per_key = 1 + 2 + 5 + 2 + case.value_len as usize + 9;
        let total_before = per_key * case.keys as usize;
        if total_before > 200_000 {
            tally.discard("state too large");
            return Ok(());
        }
        // Largest last-value length that is still included (inclusion is monotone in the length).
        let (mut lo, mut hi) = (0usize, 65_400usize);
        let (_, inc0) = reply_len_for(case, 0, tally, false)?;
        if !inc0 {
            // Already truncated before the last key: still a valid boundary case, check it as is.
            reply_len_for(case, 0, tally, true)?;
            tally.label("truncated_before_last");
            tally.nontrivial(str_hash(&format!("{case:?}")));
            return Ok(());
        }
        let (_, inc_hi) = reply_len_for(case, hi, tally, false)?;
        if inc_hi {
            lo = hi;
        } else {
            while hi - lo > 1 {
                let mid = (lo + hi) / 2;
                let (_, inc) = reply_len_for(case, mid, tally, false)?;
                if inc {
                    lo = mid
                } else {
                    hi = mid
                }
            }
        }
        // Sweep around the boundary with the full oracle.
        let start = lo.saturating_sub(if case.tail_member { 70 } else { 12 });
        let mut max_len = 0;
        for l in start..=(lo + 4).min(65_400) {
            let (len, _) = reply_len_for(case, l, tally, true)?;
            max_len = max_len.max(len);
        }
        tally.max("boundary_reply_len", max_len as u64);
        tally.label(match MAX_DATAGRAM - max_len.min(MAX_DATAGRAM) {
            0..=3 => "boundary_slack_0_3",
            4..=15 => "boundary_slack_4_15",
            16..=63 => "boundary_slack_16_63",
            _ => "boundary_slack_64_plus",
        });
        tally.nontrivial(str_hash(&format!("{case:?}")));
        tally.sample(|| json!({"case": format!("{case:?}"), "largest_included_last_len": lo, "max_reply_len": max_len}));
        Ok(())
    })
}

pub fn boundary_strategy() -> impl Strategy<Value = BoundaryCase> {
    (
        prop_oneof![1 => Just(1u8), 1 => Just(2u8), 2 => Just(3u8), 5 => Just(4u8)],
        prop_oneof![3 => 0u32..300, 3 => 300u32..3_000, 2 => 3_000u32..20_000, 1 => 20_000u32..60_000],
        any::<u16>(),
        0u8..4,
        any::<bool>(),
        0u32..1000,
        prop_oneof![2 => Just(false), 1 => Just(true)],
        prop_oneof![3 => Just(0u8), 2 => 1u8..40],
    )
        .prop_map(|(class, value_len, seed, known, synack, fill, tail_member, unknown_in_syn)| {
            // Choose the key count so that the keys before the last one use 20..100 % of a datagram.
            let per_key = 19 + value_len as usize;
            let target = 13_000 + (fill as usize * 52_000) / 1000;
            let keys = (target / per_key).clamp(0, 1500) as u16;
            BoundaryCase { class, value_len, keys, seed, known, synack, tail_member, unknown_in_syn }
        })
}

pub fn run(ctx: &Ctx, report: &mut Report) {
    report.push(run_proptest(ctx, "many-keys", ctx.cases(32, 800), 20, many_keys_strategy, exec_many_keys));
    report.push(run_proptest(ctx, "huge-digest", ctx.cases(1_600, 40_000), 100, huge_digest_strategy, exec_huge_digest));
    report.push(run_proptest(ctx, "generated-states", ctx.cases(6_000, 150_000), 300, case_strategy, exec_mtu));
    report.push(run_proptest(ctx, "boundary-directed", ctx.cases(2_500, 60_000), 200, boundary_strategy, exec_boundary));
}

pub fn replay(ctx: &Ctx, sub: &str, case: &serde_json::Value) -> SubResult {
    match sub {
        "boundary-directed" => replay_case::<BoundaryCase, _>(ctx, sub, case, exec_boundary),
        "many-keys" => replay_case::<ManyKeysCase, _>(ctx, sub, case, exec_many_keys),
        "huge-digest" => replay_case::<HugeDigestCase, _>(ctx, sub, case, exec_huge_digest),
        _ => replay_case::<MtuCase, _>(ctx, sub, case, exec_mtu),
    }
}

// ------------------------------------------------------------------------------------------
// C01 sub-check: a single key-value that (together with the digest) fits one datagram is
// delivered by one complete handshake, whichever side initiates it.

#[derive(Clone, Debug, Serialize, Deserialize)]
pub struct MaxValueCase {
    /// 0: "c", 1: a 49-byte id, 2: a 200-byte id, 3: the empty id
    pub cluster: u8,
    pub key_len: u8,
    /// Bytes below the largest value length that still fits (0 = exact fit).
    pub slack: u8,
    pub seed: u16,
    /// The lagging node initiates (SYN-ACK carries the value) or the holder does (ACK carries it).
    pub lagging_initiates: bool,
    /// Extra members known to both (their digest entries shrink the budget).
    pub extra_members: u8,
}

fn stream_len(raw: usize) -> usize {
    raw + raw.div_ceil(BLOCK) * 3 + 1
}

pub fn exec_max_value(case: &MaxValueCase, tally: &mut Tally) -> Result<(), Failure> {
    with_paused_runtime(async {
        let cluster = match case.cluster % 4 {
            0 => "c".to_string(),
            1 => "cluster-with-a-rather-long-identifier-0123456789".to_string(),
            2 => "x".repeat(200),
            _ => String::new(),
        };
        let fd = FdCfg::default();
        let hid = simple_id("holder", 0, 9301);
        let lid = simple_id("lagging", 0, 9302);
        let mut h = build_node(&hid, &cluster, std::time::Duration::from_secs(3600), &fd, false, 0).chitchat;
        let mut l = build_node(&lid, &cluster, std::time::Duration::from_secs(3600), &fd, false, 0).chitchat;
        // Extra members, known to both with identical (empty) copies.
        let extras: Vec<WId> = (0..case.extra_members % 6).map(|i| WId::v4(&format!("extra{i}"), 0, 9400 + i as u16)).collect();
        for n in [&mut h, &mut l] {
            if !extras.is_empty() {
                let d: Vec<WNodeDigest> = extras.iter().map(|id| WNodeDigest { id: id.clone(), heartbeat: 3, last_gc: 0, max_version: 0 }).collect();
                let (bytes, _) = encode_msg(&WMsg::Syn { cluster_id: cluster.clone(), digest: d }, Blocking::Canonical);
                let (m, _) = real_decode(&bytes).map_err(|e| Failure::new("C01/setup", e))?;
                n.verif_process_message(m);
            }
        }
        // One warm-up handshake so that both know each other (the digests are then complete).
        let syn = l.verif_create_syn_message();
        let synack = h.verif_process_message(syn).ok_or_else(|| Failure::new("C01/setup", "no synack"))?;
        let ack = l.verif_process_message(synack).ok_or_else(|| Failure::new("C01/setup", "no ack"))?;
        h.verif_process_message(ack);
        // Size the value: the reply carries the holder's digest (holder, lagging, extras), one
        // member header and one key-value; blocks are assumed stored raw (class-4 content).
        let id_len = |id: &WId| id.encoded_len();
        let mut digest_len = 2 + id_len(&WId::from_real(&hid)) + 24 + id_len(&WId::from_real(&lid)) + 24;
        for e in &extras {
            digest_len += id_len(e) + 24;
        }
        let key = format!("K{}", "k".repeat(case.key_len as usize % 40));
        let node_op = 1 + id_len(&WId::from_real(&hid)) + 16;
        let kv_fixed = 1 + 2 + key.len() + 2 + 8 + 1;
        let limit = if case.lagging_initiates { MAX_DATAGRAM - 4 - digest_len } else { MAX_DATAGRAM - 4 };
        // largest value length with stream_len(node_op + kv_fixed + v) <= limit
        let mut v = limit.saturating_sub(node_op + kv_fixed + 1);
        while v > 0 && stream_len(node_op + kv_fixed + v) > limit {
            v -= 1;
        }
        let v = v.min(65_535);
        let vlen = v.saturating_sub(case.slack as usize % 90);
        h.self_node_state().set(&key, expand_value(4, vlen, case.seed as u64));
        let before = l.node_state(&hid).map(|ns| (ns.last_gc_version(), ns.max_version())).unwrap_or((0, 0));
        let r = guard(|| {
            let (a, b): (&mut chitchat::Chitchat, &mut chitchat::Chitchat) = if case.lagging_initiates { (&mut l, &mut h) } else { (&mut h, &mut l) };
            let syn = a.verif_create_syn_message();
            let synack = b.verif_process_message(syn).expect("synack");
            let ack = a.verif_process_message(synack).expect("ack");
            b.verif_process_message(ack);
        });
        if let Err(p) = r {
            tally.discard(&format!("panic: {}", p.signature()));
            return Ok(());
        }
        let after = l.node_state(&hid).map(|ns| (ns.last_gc_version(), ns.max_version())).unwrap_or((0, 0));
        if after <= before {
            return Err(Failure::new(
                "C01/deliverable-value-not-delivered",
                format!(
                    "a complete handshake initiated by the {} node did not advance the lagging copy {:?}: the holder's single key-value ({} byte key, {} byte value; with the {} byte digest the reply would be {} bytes <= 65,507) was not sent",
                    if case.lagging_initiates { "lagging" } else { "holder" },
                    before,
                    key.len(),
                    vlen,
                    digest_len,
                    4 + if case.lagging_initiates { digest_len } else { 0 } + stream_len(node_op + kv_fixed + vlen)
                ),
            ));
        }
        tally.nontrivial(str_hash(&format!("{case:?}")));
        tally.label(if case.slack % 90 == 0 { "exact_fit" } else { "near_fit" });
        tally.sample(|| serde_json::json!({"value_len": vlen, "digest_len": digest_len, "lagging_initiates": case.lagging_initiates, "cluster_id_len": cluster.len()}));
        Ok(())
    })
}

pub fn max_value_strategy() -> impl Strategy<Value = MaxValueCase> {
    (0u8..4, 0u8..40, prop_oneof![2 => Just(0u8), 3 => 0u8..8, 2 => 8u8..90], any::<u16>(), any::<bool>(), 0u8..6)
        .prop_map(|(cluster, key_len, slack, seed, lagging_initiates, extra_members)| MaxValueCase { cluster, key_len, slack, seed, lagging_initiates, extra_members })
}

pub fn run_max_value(ctx: &Ctx, report: &mut Report) {
    report.push(run_proptest(ctx, "max-size-value", ctx.cases(3_000, 100_000), 200, max_value_strategy, exec_max_value));
}

pub fn replay_max_value(ctx: &Ctx, sub: &str, case: &serde_json::Value) -> SubResult {
    replay_case::<MaxValueCase, _>(ctx, sub, case, exec_max_value)
}

// ------------------------------------------------------------------------------------------
// C01 sub-check: a joiner facing hundreds of KB of small, highly compressible entries. Every
// message goes through the real codec (a message the decoder rejects is a lost message); every
// complete handshake must advance the joiner's copy until it equals the owner's.

#[derive(Clone, Debug, Serialize, Deserialize)]
pub struct BulkCase {
    /// number of entries / 100 (5..=60)
    pub hundreds: u8,
    pub value_len: u16,
    /// 0: the same text in every value, 1: JSON-like text with the index, 2: one repeated letter
    pub pattern: u8,
    pub lagging_initiates: bool,
}

fn codec_round_trip(msg: chitchat::ChitchatMessage) -> Option<chitchat::ChitchatMessage> {
    use chitchat::Serializable;
    let mut bytes = Vec::new();
    msg.serialize(&mut bytes);
    real_decode(&bytes).ok().map(|(m, _)| m)
}

pub fn exec_bulk(case: &BulkCase, tally: &mut Tally) -> Result<(), Failure> {
    with_paused_runtime(async {
        let n = (case.hundreds as usize).clamp(1, 60) * 100;
        let vlen = (case.value_len as usize).clamp(1, 600);
        let fd = FdCfg::default();
        let hid = simple_id("holder", 0, 9311);
        let lid = simple_id("joiner", 0, 9312);
        let mut h = build_node(&hid, "c", std::time::Duration::from_secs(3600), &fd, false, 0).chitchat;
        let mut l = build_node(&lid, "c", std::time::Duration::from_secs(3600), &fd, false, 0).chitchat;
        {
            let ns = h.self_node_state();
            for i in 0..n {
                let value: String = match case.pattern % 3 {
                    0 => "the quick brown fox jumps over the lazy dog ".chars().cycle().take(vlen).collect(),
                    1 => format!("{{\"shard\":{i},\"state\":\"ready\",\"endpoint\":\"10.0.0.{}:7280\",\"tags\":[\"a\",\"b\"]}}", i % 250).chars().cycle().take(vlen).collect(),
                    _ => "z".repeat(vlen),
                };
                ns.set(format!("service/{i:05}"), value);
            }
        }
        let target = h.self_node_state().max_version();
        let mut raw_total = 0usize;
        let mut handshakes = 0;
        loop {
            let before = l.node_state(&hid).map(|ns| ns.max_version()).unwrap_or(0);
            if before == target {
                break;
            }
            if handshakes >= 60 {
                return Err(Failure::new("C01/bulk-not-converged", format!("after 60 loss-free handshakes the joiner holds the owner's {n} entries of {vlen} bytes only up to version {before} of {target}")));
            }
            handshakes += 1;
            let mut largest = 0usize;
            let r = guard(|| {
                let (a, b): (&mut chitchat::Chitchat, &mut chitchat::Chitchat) = if case.lagging_initiates { (&mut l, &mut h) } else { (&mut h, &mut l) };
                let mut measure = |m: &chitchat::ChitchatMessage| {
                    use chitchat::Serializable;
                    largest = largest.max(m.serialized_len());
                };
                let syn = a.verif_create_syn_message();
                measure(&syn);
                let Some(syn) = codec_round_trip(syn) else { return };
                let Some(synack) = b.verif_process_message(syn) else { return };
                measure(&synack);
                let Some(synack) = codec_round_trip(synack) else { return };
                let Some(ack) = a.verif_process_message(synack) else { return };
                measure(&ack);
                let Some(ack) = codec_round_trip(ack) else { return };
                b.verif_process_message(ack);
            });
            if let Err(p) = r {
                tally.discard(&format!("panic: {}", p.signature()));
                return Ok(());
            }
            raw_total = raw_total.max(largest);
            let after = l.node_state(&hid).map(|ns| ns.max_version()).unwrap_or(0);
            if after <= before {
                return Err(Failure::new(
                    "C01/bulk-handshake-without-progress",
                    format!("handshake {handshakes} (initiated by the {}) did not advance the joiner's copy of the owner (version {before} of {target}; {n} entries of {vlen} compressible bytes; largest datagram {largest} bytes): a message was not decodable or nothing was sent", if case.lagging_initiates { "joiner" } else { "owner" }),
                ));
            }
        }
        if n * vlen > 262_144 {
            tally.nontrivial(str_hash(&format!("{case:?}")));
            tally.label("lag_above_256_KiB");
        }
        if handshakes == 1 {
            tally.label("one_handshake_sufficed");
        }
        tally.max("largest_datagram", raw_total as u64);
        tally.sample(|| serde_json::json!({"entries": n, "value_len": vlen, "pattern": case.pattern % 3, "handshakes": handshakes, "largest_datagram": raw_total}));
        Ok(())
    })
}

pub fn bulk_strategy() -> impl Strategy<Value = BulkCase> {
    (5u8..=60, prop_oneof![20u16..100, 100u16..400], 0u8..3, any::<bool>()).prop_map(|(hundreds, value_len, pattern, lagging_initiates)| BulkCase { hundreds, value_len, pattern, lagging_initiates })
}

pub fn run_bulk(ctx: &Ctx, report: &mut Report) {
    report.push(run_proptest(ctx, "bulk-compressible", ctx.cases(160, 4_000), 60, bulk_strategy, exec_bulk));
}

pub fn replay_bulk(ctx: &Ctx, sub: &str, case: &serde_json::Value) -> SubResult {
    replay_case::<BulkCase, _>(ctx, sub, case, exec_bulk)
}

// ------------------------------------------------------------------------------------------
// C07 sub-check: a member with a very large number of tiny key-values (the reply is cut by the
// budget after thousands of entries); an early tombstone whose key sorts last must not be skipped.

#[derive(Clone, Debug, Serialize, Deserialize)]
pub struct ManyKeysCase {
    /// thousands of keys (1..=100)
    pub thousands: u8,
    /// version (1-based position) of the entry that is deleted afterwards; its key sorts last
    pub early_delete: u8,
    pub peer_knows: u8,
}

pub fn exec_many_keys(case: &ManyKeysCase, tally: &mut Tally) -> Result<(), Failure> {
    with_paused_runtime(async {
        let n = (case.thousands as usize % 100 + 1) * 1000;
        let fd = FdCfg::default();
        let self_id = simple_id("self", 1, 9000);
        let mut node = build_node(&self_id, "cluster", std::time::Duration::from_secs(3600), &fd, false, 0).chitchat;
        {
            let ns = node.self_node_state();
            ns.set("zzz-sorts-last", "old");
            let del_at = (case.early_delete as usize % 50) + 1;
            for i in 0..n {
                ns.set(format!("k{i:06}"), "v");
                if i == del_at {
                    ns.delete("zzz-sorts-last");
                }
            }
        }
        let copies = all_copies(&node);
        let digest = vec![WNodeDigest { id: WId::from_real(&self_id), heartbeat: 1, last_gc: 0, max_version: (case.peer_knows % 3) as u64 }];
        let msg = synack_message(&digest)?;
        let reply = match guard(|| node.verif_process_message(msg)) {
            Ok(Some(r)) => r,
            Ok(None) => return vio("C07/no-reply", "no reply".into()),
            Err(p) => return vio(&format!("C07/{}", p.signature()), format!("processing panicked: {}", p.describe())),
        };
        let _ = copies;
        let copies2 = all_copies(&node);
        let facts = check_reply(&reply, MAX_DATAGRAM, &copies2, &digest, &[], tally, &format!("{n} keys"))?;
        tally.max("keys", n as u64);
        if facts.truncated {
            tally.label("truncated_after_thousands_of_entries");
        }
        tally.nontrivial(str_hash(&format!("{case:?}")));
        tally.sample(|| serde_json::json!({"keys": n, "truncated": facts.truncated}));
        Ok(())
    })
}

// ------------------------------------------------------------------------------------------
// C07 sub-check: the responder's own digest nearly fills the datagram (few members with very
// long node ids), leaving 100..1,200 bytes for the delta of the SYN-ACK, and it owes the peer
// more than that.

#[derive(Clone, Debug, Serialize, Deserialize)]
pub struct HugeDigestCase {
    /// other members (1..=40)
    pub members: u8,
    /// bytes the digest should leave for the delta (100..=1,200; the statement starts at 100)
    pub room: u16,
    /// own key-values (each ~300 near-incompressible bytes)
    pub own_entries: u8,
    pub seed: u16,
}

pub fn exec_huge_digest(case: &HugeDigestCase, tally: &mut Tally) -> Result<(), Failure> {
    with_paused_runtime(async {
        let m = (case.members as usize).clamp(1, 40);
        let room = (case.room as usize).clamp(100, 1_200);
        let fd = FdCfg::default();
        let self_id = simple_id("self", 1, 9000);
        let mut node = build_node(&self_id, "cluster", std::time::Duration::from_secs(3600), &fd, false, 0).chitchat;
        {
            let ns = node.self_node_state();
            for i in 0..(case.own_entries as usize % 12 + 4) {
                ns.set(format!("own{i:02}"), expand_value(4, 300, case.seed as u64 + i as u64));
            }
        }
        let peer = WId::v4("peer", 0, 9100);
        // digest length = 2 + sum(id + 24): self, peer, m members; the members' node ids are padded
        // so that the digest leaves exactly `room` bytes (the last member absorbs the remainder)
        let fixed = 2 + (WId::from_real(&self_id).encoded_len() + 24) + (peer.encoded_len() + 24);
        let target = MAX_DATAGRAM - 4 - room;
        let per_member_fixed = WId::v4("", 0, 1).encoded_len() + 24;
        let Some(ids_total) = target.checked_sub(fixed + m * per_member_fixed) else {
            tally.discard("members do not fit");
            return Ok(());
        };
        let base = ids_total / m;
        if base < 4 || base + m > 65_535 {
            tally.discard("node id length out of range");
            return Ok(());
        }
        let mut ids: Vec<WId> = Vec::new();
        for i in 0..m {
            let len = if i + 1 == m { ids_total - base * (m - 1) } else { base };
            let mut node_id = format!("{i:02}-");
            while node_id.len() < len {
                node_id.push((b'a' + ((i + node_id.len()) % 26) as u8) as char);
            }
            node_id.truncate(len);
            ids.push(WId::v4(&node_id, 0, 9200 + i as u16));
        }
        let mut digest: Vec<WNodeDigest> = ids.iter().map(|id| WNodeDigest { id: id.clone(), heartbeat: 1, last_gc: 0, max_version: 0 }).collect();
        digest.push(WNodeDigest { id: peer.clone(), heartbeat: 1, last_gc: 0, max_version: 0 });
        let msg = syn_message(&digest)?;
        let reply = match guard(|| node.verif_process_message(msg)) {
            Ok(Some(r)) => r,
            Ok(None) => return vio("C07/no-reply", "no reply".into()),
            Err(p) => return vio(&format!("C07/{}", p.signature()), format!("answering a SYN with a digest that leaves {room} bytes panicked: {}", p.describe())),
        };
        use chitchat::Serializable;
        let total = reply.serialized_len();
        let own_digest_len = match chitchat::verif::verif_describe(&reply) {
            chitchat::verif::VerifMessage::SynAck { digest, .. } => 2 + digest.iter().map(|d| WId::from_real(&d.chitchat_id).encoded_len() + 24).sum::<usize>(),
            _ => return vio("C07/no-reply", "reply to a SYN is not a SYN-ACK".into()),
        };
        let left = (MAX_DATAGRAM - 4).saturating_sub(own_digest_len);
        if left < 100 {
            tally.discard("digest leaves less than 100 bytes");
            return Ok(());
        }
        if total > MAX_DATAGRAM {
            return vio("C07/oversize", format!("SYN-ACK of {total} bytes > 65,507: own digest of {own_digest_len} bytes ({m} members with node ids of ~{base} bytes) leaves {left} bytes (>= 100) for the delta"));
        }
        let copies = all_copies(&node);
        let facts = check_reply(&reply, MAX_DATAGRAM, &copies, &digest, &[], tally, &format!("digest leaves {left} bytes"))?;
        if facts.truncated {
            tally.label("truncated_by_huge_digest");
        }
        tally.nontrivial(str_hash(&format!("{case:?}")));
        tally.max("own_digest_len", own_digest_len as u64);
        tally.sample(|| serde_json::json!({"members": m, "digest_len": own_digest_len, "room": left, "reply_len": total}));
        Ok(())
    })
}

pub fn huge_digest_strategy() -> impl Strategy<Value = HugeDigestCase> {
    (1u8..=40, prop_oneof![2 => 100u16..130, 3 => 100u16..1_200], any::<u8>(), any::<u16>()).prop_map(|(members, room, own_entries, seed)| HugeDigestCase { members, room, own_entries, seed })
}

pub fn many_keys_strategy() -> impl Strategy<Value = ManyKeysCase> {
    (prop_oneof![2 => 0u8..30, 2 => 60u8..100, 1 => Just(99u8)], any::<u8>(), any::<u8>()).prop_map(|(thousands, early_delete, peer_knows)| ManyKeysCase { thousands, early_delete, peer_knows })
}
