//! Engine E9: key-change listeners (C15).

use std::collections::BTreeMap;
use std::sync::{Arc, Mutex};
use std::time::Duration;

use chitchat::{Chitchat, ChitchatId, ListenerHandle};
use proptest::prelude::*;
use serde::{Deserialize, Serialize};
use serde_json::json;

use crate::common::*;
use crate::util::*;
use crate::wire::*;

/// 1-, 3-, 2- and 4-byte characters.
pub const SYMBOLS: [char; 4] = ['a', '€', 'é', '😀'];
const GRACE_NS: u64 = 10_000_000_000;

pub fn sym_string(s: &[u8]) -> String {
    s.iter().map(|&i| SYMBOLS[(i as usize) % 4]).collect()
}

#[derive(Clone, Debug, PartialEq, Eq, Serialize, Deserialize)]
pub struct SubSpec {
    pub prefix: Vec<u8>,
    /// 0 keep the handle, 1 forever(), 2 drop immediately, 3 dropped later by a DropSub event
    pub mode: u8,
    /// The callback is a zero-sized function item (captures nothing; it records into a
    /// thread-local log) instead of a capturing closure. Only for subscription indices < 16.
    #[serde(default)]
    pub zst: bool,
}

#[derive(Clone, Debug, PartialEq, Eq, Serialize, Deserialize)]
pub enum LEvent {
    Set { key: Vec<u8>, val: u8 },
    SetTtl { key: Vec<u8>, val: u8 },
    Delete { key: Vec<u8> },
    DeleteTtl { key: Vec<u8> },
    /// Replica initiates a full handshake with the owner.
    Gossip,
    /// Re-deliver the i-th captured SynAck to the replica (stale duplicate).
    Redeliver(u16),
    /// Advance the clock beyond the grace period and run key GC on the owner.
    OwnerGc,
    DropSub(u16),
    Subscribe(SubSpec),
    /// The replica is handed the owner's full current state through the external catch-up entry
    /// point (`reset_node_state_if_update`): keys it already holds at the same version are stale.
    CatchUp,
}

#[derive(Clone, Debug, Serialize, Deserialize)]
pub struct LCase {
    pub subs: Vec<SubSpec>,
    pub events: Vec<LEvent>,
}

type Log = Arc<Mutex<Vec<(usize, String, String, String)>>>;

struct Side {
    node: Chitchat,
    log: Log,
    handles: Vec<Option<ListenerHandle>>,
}

struct SubState {
    prefix: String,
    active: bool,
}

thread_local! {
    /// Calls recorded by the zero-sized callbacks: (side, subscription index, key, value, node).
    static ZLOG: std::cell::RefCell<Vec<(usize, usize, String, String, String)>> = const { std::cell::RefCell::new(Vec::new()) };
}

fn zcb<const SIDE: usize, const K: usize>(ev: chitchat::KeyChangeEvent) {
    ZLOG.with(|l| l.borrow_mut().push((SIDE, K, ev.key.to_string(), ev.value.to_string(), ev.node.node_id.clone())));
}

fn subscribe_zst<const SIDE: usize>(node: &Chitchat, sub_id: usize, prefix: &str) -> ListenerHandle {
    macro_rules! pick {
        ($($k:literal),*) => {
            match sub_id {
                $($k => node.subscribe_event(prefix, zcb::<SIDE, $k>),)*
                _ => unreachable!(),
            }
        };
    }
    pick!(0, 1, 2, 3, 4, 5, 6, 7, 8, 9, 10, 11, 12, 13, 14, 15)
}

/// The side's log, with the calls of its zero-sized callbacks moved into it first.
fn read_log(log: &Log, side: usize) -> Vec<(usize, String, String, String)> {
    let mut l = log.lock().unwrap();
    ZLOG.with(|z| {
        let mut z = z.borrow_mut();
        let mut rest = Vec::new();
        for e in z.drain(..) {
            if e.0 == side {
                l.push((e.1, e.2, e.3, e.4));
            } else {
                rest.push(e);
            }
        }
        *z = rest;
    });
    l.clone()
}

fn clear_log(log: &Log, side: usize) {
    log.lock().unwrap().clear();
    ZLOG.with(|z| z.borrow_mut().retain(|e| e.0 != side));
}

fn subscribe(side: &mut Side, side_idx: usize, sub_id: usize, prefix: &str, mode: u8, zst: bool) {
    let log = side.log.clone();
    let handle = if zst && sub_id < 16 {
        if side_idx == 0 { subscribe_zst::<0>(&side.node, sub_id, prefix) } else { subscribe_zst::<1>(&side.node, sub_id, prefix) }
    } else {
        side.node.subscribe_event(prefix, move |ev| {
            log.lock().unwrap().push((sub_id, ev.key.to_string(), ev.value.to_string(), ev.node.node_id.clone()));
        })
    };
    match mode {
        1 => {
            handle.forever();
            side.handles.push(None);
        }
        2 => {
            drop(handle);
            side.handles.push(None);
        }
        _ => side.handles.push(Some(handle)),
    }
}

fn expected_for(subs: &[SubState], key: &str, value: &str, owner: &str) -> Vec<(usize, String, String, String)> {
    let mut out = Vec::new();
    for (i, s) in subs.iter().enumerate() {
        if s.active {
            if let Some(stripped) = key.strip_prefix(s.prefix.as_str()) {
                out.push((i, stripped.to_string(), value.to_string(), owner.to_string()));
            }
        }
    }
    out
}

/// must ⊆ actual ⊆ must ∪ may (as multisets).
fn check_calls(
    actual: &[(usize, String, String, String)],
    must: &[(usize, String, String, String)],
    may: &[(usize, String, String, String)],
) -> Result<(), String> {
    let mut counts: BTreeMap<&(usize, String, String, String), (i64, i64, i64)> = BTreeMap::new();
    for a in actual {
        counts.entry(a).or_default().0 += 1;
    }
    for m in must {
        counts.entry(m).or_default().1 += 1;
    }
    for m in may {
        counts.entry(m).or_default().2 += 1;
    }
    for (rec, (a, mu, ma)) in counts {
        if a < mu {
            return Err(format!("missing call {rec:?}: got {a}, expected {mu}"));
        }
        if a > mu + ma {
            return Err(format!("unexpected call {rec:?}: got {a}, expected at most {}", mu + ma));
        }
    }
    Ok(())
}

fn fail(sig: &str, msg: String, step: usize, ev: &LEvent) -> Failure {
    Failure::new(sig, format!("event {step} {ev:?}: {msg}")).with_detail(json!({"step": step}))
}

pub fn exec_listen(case: &LCase, tally: &mut Tally) -> Result<(), Failure> {
    with_paused_runtime(async {
        let fd = FdCfg::default();
        let owner_id: ChitchatId = simple_id("owner", 0, 7101);
        let replica_id = simple_id("replica", 0, 7102);
        let mut a = Side {
            node: build_node(&owner_id, "c", Duration::from_nanos(GRACE_NS), &fd, false, 0).chitchat,
            log: Default::default(),
            handles: Vec::new(),
        };
        let mut b = Side {
            node: build_node(&replica_id, "c", Duration::from_nanos(GRACE_NS), &fd, false, 0).chitchat,
            log: Default::default(),
            handles: Vec::new(),
        };
        let mut subs: Vec<SubState> = Vec::new();
        for (i, s) in case.subs.iter().enumerate() {
            let prefix = sym_string(&s.prefix);
            subscribe(&mut a, 0, i, &prefix, s.mode, s.zst);
            subscribe(&mut b, 1, i, &prefix, s.mode, s.zst);
            subs.push(SubState { prefix, active: s.mode != 2 });
        }
        let mut captured: Vec<Vec<u8>> = Vec::new();
        let mut nontrivial = false;
        for (step, ev) in case.events.iter().enumerate() {
            clear_log(&a.log, 0);
            clear_log(&b.log, 1);
            match ev {
                LEvent::Set { key, val } | LEvent::SetTtl { key, val } => {
                    let ttl = matches!(ev, LEvent::SetTtl { .. });
                    let key = sym_string(key);
                    let value = format!("v{val}");
                    let before = a.node.self_node_state().get_versioned(&key).map(|vv| (vv.value.clone(), status_code(&vv.status)));
                    let r = guard(|| {
                        let ns = a.node.self_node_state();
                        if ttl {
                            ns.set_with_ttl(&key, &value)
                        } else {
                            ns.set(&key, &value)
                        }
                    });
                    if let Err(p) = r {
                        return Err(fail(&format!("C15/{}", p.signature()), p.describe(), step, ev));
                    }
                    let wanted_status = if ttl { 2 } else { 0 };
                    let exp = expected_for(&subs, &key, &value, "owner");
                    let (must, may) = match before {
                        // Exact no-op: nothing may fire.
                        Some((v, st)) if v == value && st == wanted_status => (vec![], vec![]),
                        // Same value, different status: the statement says "to a new value"; open.
                        Some((v, _)) if v == value => (vec![], exp),
                        _ => (exp, vec![]),
                    };
                    let matching: Vec<&SubState> = subs.iter().filter(|s| s.active && key.starts_with(&s.prefix)).collect();
                    let lens: std::collections::BTreeSet<usize> = matching.iter().map(|s| s.prefix.len()).collect();
                    if key.chars().next().map(|c| c.len_utf8() > 1).unwrap_or(false) || lens.len() >= 2 {
                        nontrivial = true;
                    }
                    let actual = read_log(&a.log, 0);
                    if let Err(e) = check_calls(&actual, &must, &may) {
                        return Err(fail("C15/local-calls", format!("key {key:?}: {e}"), step, ev));
                    }
                    tally.label("local_write");
                }
                LEvent::Delete { key } | LEvent::DeleteTtl { key } => {
                    let key = sym_string(key);
                    let ttl = matches!(ev, LEvent::DeleteTtl { .. });
                    let r = guard(|| {
                        let ns = a.node.self_node_state();
                        if ttl {
                            ns.delete_after_ttl(&key)
                        } else {
                            ns.delete(&key)
                        }
                    });
                    if let Err(p) = r {
                        return Err(fail(&format!("C15/{}", p.signature()), p.describe(), step, ev));
                    }
                    let actual = read_log(&a.log, 0);
                    if let Err(e) = check_calls(&actual, &[], &[]) {
                        return Err(fail("C15/delete-calls", format!("key {key:?}: {e}"), step, ev));
                    }
                    tally.label("local_delete");
                }
                LEvent::Gossip | LEvent::Redeliver(_) => {
                    let before = b.node.node_state(&owner_id).map(copy_view);
                    let res = guard(|| -> Option<Vec<u8>> {
                        match ev {
                            LEvent::Gossip => {
                                let syn = b.node.verif_create_syn_message();
                                let synack = a.node.verif_process_message(syn).expect("synack");
                                let bytes = real_encode(&synack);
                                let ack = b.node.verif_process_message(synack).expect("ack");
                                a.node.verif_process_message(ack);
                                Some(bytes)
                            }
                            LEvent::Redeliver(sel) => {
                                if captured.is_empty() {
                                    return None;
                                }
                                let bytes = &captured[pick_idx(*sel, captured.len())];
                                let (msg, _) = real_decode(bytes).expect("captured message decodes");
                                b.node.verif_process_message(msg);
                                None
                            }
                            _ => None,
                        }
                    });
                    match res {
                        Err(p) => return Err(fail(&format!("C15/{}", p.signature()), p.describe(), step, ev)),
                        Ok(Some(bytes)) => {
                            if captured.len() < 16 {
                                captured.push(bytes)
                            }
                        }
                        Ok(None) => {}
                    }
                    let after = b.node.node_state(&owner_id).map(copy_view);
                    let mut must = Vec::new();
                    let mut may = Vec::new();
                    if let Some(after) = &after {
                        let wiped = before.as_ref().map(|bv| after.gc > bv.gc).unwrap_or(false);
                        let copy = b.node.node_state(&owner_id).unwrap();
                        for (k, (ver, st, _, _)) in &after.entries {
                            if *st == 1 {
                                continue;
                            }
                            let old = before.as_ref().and_then(|bv| bv.entries.get(k));
                            let value = copy.get_versioned(k).unwrap().value.clone();
                            let exp = expected_for(&subs, k, &value, "owner");
                            match old {
                                Some((ov, _, _, _)) if ov == ver => {
                                    if wiped {
                                        may.extend(exp);
                                    }
                                }
                                Some((ov, _, _, _)) if ov > ver => {
                                    // only possible after a wipe
                                    if wiped {
                                        must.extend(exp);
                                    }
                                }
                                _ => must.extend(exp),
                            }
                        }
                        if wiped {
                            tally.label("replica_reset");
                        }
                    }
                    if matches!(ev, LEvent::Redeliver(_)) {
                        tally.label("stale_redelivery");
                    }
                    let actual = read_log(&b.log, 1);
                    if !must.is_empty() {
                        tally.label("replicated_write_notified");
                    }
                    if let Err(e) = check_calls(&actual, &must, &may) {
                        return Err(fail("C15/replicated-calls", e, step, ev));
                    }
                    let a_actual = read_log(&a.log, 0);
                    if !a_actual.is_empty() {
                        return Err(fail("C15/owner-spurious", format!("owner listeners fired during gossip: {a_actual:?}"), step, ev));
                    }
                }
                LEvent::CatchUp => {
                    let snapshot: Vec<(String, chitchat::VersionedValue)> = a.node.self_node_state().key_values_including_deleted().map(|(k, vv)| (k.to_string(), vv.clone())).collect();
                    let (omax, ogc) = {
                        let ns = a.node.self_node_state();
                        (ns.max_version(), ns.last_gc_version())
                    };
                    let before = b.node.node_state(&owner_id).map(copy_view);
                    let r = guard(|| b.node.reset_node_state_if_update(&owner_id, snapshot.clone().into_iter(), omax, ogc));
                    if let Err(p) = r {
                        // never-panics is C18's statement; here the event simply cannot be evaluated
                        tally.discard(&format!("catch-up panicked: {}", p.signature()));
                        return Ok(());
                    }
                    let after = b.node.node_state(&owner_id).map(copy_view);
                    let mut must = Vec::new();
                    if before != after {
                        for (k, vv) in &snapshot {
                            if vv.is_deleted() {
                                continue;
                            }
                            let held = before.as_ref().and_then(|bv| bv.entries.get(k)).map(|e| e.0);
                            if held.map(|h| h < vv.version).unwrap_or(true) {
                                must.extend(expected_for(&subs, k, &vv.value, "owner"));
                            }
                        }
                        tally.label("catch_up_applied");
                    }
                    let actual = read_log(&b.log, 1);
                    if let Err(e) = check_calls(&actual, &must, &[]) {
                        return Err(fail("C15/catch-up-calls", e, step, ev));
                    }
                }
                LEvent::OwnerGc => {
                    advance_ns(GRACE_NS + 1).await;
                    let r = guard(|| a.node.verif_gc_keys_marked_for_deletion());
                    if let Err(p) = r {
                        return Err(fail(&format!("C15/{}", p.signature()), p.describe(), step, ev));
                    }
                    let actual = read_log(&a.log, 0);
                    if !actual.is_empty() {
                        return Err(fail("C15/gc-calls", format!("listeners fired during GC: {actual:?}"), step, ev));
                    }
                }
                LEvent::DropSub(sel) => {
                    if !subs.is_empty() {
                        let i = pick_idx(*sel, subs.len());
                        // Only handles that are still held can be dropped; forever() ones stay active.
                        if a.handles[i].is_some() {
                            a.handles[i] = None;
                            b.handles[i] = None;
                            subs[i].active = false;
                            nontrivial = true;
                            tally.label("handle_dropped");
                        }
                    }
                }
                LEvent::Subscribe(spec) => {
                    if subs.len() < 12 {
                        let i = subs.len();
                        let prefix = sym_string(&spec.prefix);
                        subscribe(&mut a, 0, i, &prefix, spec.mode, spec.zst);
                        subscribe(&mut b, 1, i, &prefix, spec.mode, spec.zst);
                        subs.push(SubState { prefix, active: spec.mode != 2 });
                    }
                }
            }
        }
        if nontrivial {
            tally.nontrivial(str_hash(&format!("{case:?}")));
            tally.sample(|| {
                json!({
                    "subs": case.subs.iter().map(|s| format!("{:?}/mode{}", sym_string(&s.prefix), s.mode)).collect::<Vec<_>>(),
                    "events": case.events.iter().take(12).map(|e| format!("{e:?}")).collect::<Vec<_>>(),
                })
            });
        }
        Ok(())
    })
}

fn key_strategy() -> impl Strategy<Value = Vec<u8>> {
    prop_oneof![
        6 => proptest::collection::vec(0u8..4, 0..=3),
        1 => proptest::collection::vec(0u8..4, 4..=6),
    ]
}

fn sub_strategy() -> impl Strategy<Value = SubSpec> {
    (proptest::collection::vec(0u8..4, 0..=3), prop_oneof![4 => Just(0u8), 2 => Just(1u8), 1 => Just(2u8)], proptest::bool::weighted(0.35))
        .prop_map(|(prefix, mode, zst)| SubSpec { prefix, mode, zst })
}

fn event_strategy() -> impl Strategy<Value = LEvent> {
    prop_oneof![
        8 => (key_strategy(), 0u8..3).prop_map(|(key, val)| LEvent::Set { key, val }),
        3 => (key_strategy(), 0u8..3).prop_map(|(key, val)| LEvent::SetTtl { key, val }),
        3 => key_strategy().prop_map(|key| LEvent::Delete { key }),
        2 => key_strategy().prop_map(|key| LEvent::DeleteTtl { key }),
        5 => Just(LEvent::Gossip),
        2 => any::<u16>().prop_map(LEvent::Redeliver),
        1 => Just(LEvent::OwnerGc),
        1 => any::<u16>().prop_map(LEvent::DropSub),
        1 => sub_strategy().prop_map(LEvent::Subscribe),
        2 => Just(LEvent::CatchUp),
    ]
}

pub fn case_strategy() -> impl Strategy<Value = LCase> {
    (proptest::collection::vec(sub_strategy(), 0..=8), proptest::collection::vec(event_strategy(), 1..=30))
        .prop_map(|(subs, events)| LCase { subs, events })
}

pub fn all_keys() -> Vec<Vec<u8>> {
    let mut out: Vec<Vec<u8>> = vec![vec![]];
    for a in 0..4u8 {
        out.push(vec![a]);
        for b in 0..4u8 {
            out.push(vec![a, b]);
            for c in 0..4u8 {
                out.push(vec![a, b, c]);
            }
        }
    }
    out
}

/// The i-th pseudo-random subscription set (pure function of seed and index).
fn nth_sub_set(seed: u64, idx: u64) -> Vec<SubSpec> {
    let mut x = splitmix64(seed ^ idx.wrapping_mul(0x9E3779B97F4A7C15));
    let mut next = || {
        x = splitmix64(x);
        x
    };
    let n = (next() % 9) as usize;
    (0..n)
        .map(|_| {
            let len = (next() % 4) as usize;
            let prefix = (0..len).map(|_| (next() % 4) as u8).collect();
            let mode = match next() % 7 {
                0..=3 => 0,
                4 | 5 => 1,
                _ => 2,
            };
            SubSpec { prefix, mode, zst: next() % 3 == 0 }
        })
        .collect()
}

pub fn run(ctx: &Ctx, report: &mut Report) {
    let keys = all_keys();
    let sets = ctx.cases(3_000, 100_000);
    let seed = ctx.seed;
    let mut sub = run_enumeration(ctx, "exhaustive-keys", sets, |idx, tally| {
        let mut events = Vec::new();
        for k in &keys {
            events.push(LEvent::Set { key: k.clone(), val: (idx % 3) as u8 });
        }
        events.push(LEvent::Gossip);
        let case = LCase { subs: nth_sub_set(seed, idx), events };
        exec_listen(&case, tally).map_err(|f| (f, serde_json::to_value(&case).unwrap()))
    });
    sub.exhaustive = false;
    sub.scope = format!("every key of length <= 3 over {SYMBOLS:?} (85 keys, exhaustive) x {sets} pseudo-random subscription sets of 0..8 prefixes");
    report.push(sub);
    report.push(run_proptest(ctx, "random-histories", ctx.cases(100_000, 3_000_000), 4000, case_strategy, exec_listen));
}

pub fn replay(ctx: &Ctx, sub: &str, case: &serde_json::Value) -> SubResult {
    replay_case::<LCase, _>(ctx, sub, case, exec_listen)
}

// ------------------------------------------------------------------------------------------
// A handle dropped while another thread is in the middle of dispatching an event: once the drop has
// returned, the subscription must be gone. The schedule is owned by the harness (channels), no
// timing decides the verdict.

#[derive(Clone, Debug, Serialize, Deserialize)]
pub struct DropRaceCase {
    pub prefix: Vec<u8>,
    pub key_tail: Vec<u8>,
    /// Other subscriptions registered before / after the one that is dropped.
    pub others_before: u8,
    pub others_after: u8,
    /// Drop while a dispatch is in progress (true) or between dispatches (false, control).
    pub during_dispatch: bool,
}

pub fn exec_drop_race(case: &DropRaceCase, tally: &mut Tally) -> Result<(), Failure> {
    use std::sync::atomic::{AtomicUsize, Ordering};
    use std::sync::mpsc;
    let fd = FdCfg::default();
    let owner_id = simple_id("owner", 0, 7101);
    let mut node = build_node(&owner_id, "c", Duration::from_nanos(GRACE_NS), &fd, false, 0).chitchat;
    let prefix = sym_string(&case.prefix);
    let key = format!("{prefix}{}", sym_string(&case.key_tail));
    let (entered_tx, entered_rx) = mpsc::channel::<()>();
    let (release_tx, release_rx) = mpsc::channel::<()>();
    let release_rx = std::sync::Mutex::new(release_rx);
    let entered_tx = std::sync::Mutex::new(entered_tx);
    let blocker_calls = std::sync::Arc::new(AtomicUsize::new(0));
    let bc = blocker_calls.clone();
    // The blocking listener: on its first call it reports "inside a dispatch" and waits.
    let blocker = node.subscribe_event("", move |_| {
        if bc.fetch_add(1, Ordering::SeqCst) == 0 {
            let _ = entered_tx.lock().unwrap().send(());
            let _ = release_rx.lock().unwrap().recv_timeout(std::time::Duration::from_secs(5));
        }
    });
    let mut keep = Vec::new();
    for i in 0..case.others_before % 4 {
        keep.push(node.subscribe_event(if i % 2 == 0 { prefix.clone() } else { String::new() }, |_| {}));
    }
    let victim_calls = std::sync::Arc::new(AtomicUsize::new(0));
    let vc = victim_calls.clone();
    let victim = node.subscribe_event(prefix.clone(), move |_| {
        vc.fetch_add(1, Ordering::SeqCst);
    });
    for i in 0..case.others_after % 4 {
        keep.push(node.subscribe_event(if i % 2 == 0 { prefix.clone() } else { String::new() }, |_| {}));
    }
    let calls_after_drop = std::thread::scope(|scope| -> Result<usize, Failure> {
        if case.during_dispatch {
            let node_ref = &mut node;
            let k = key.clone();
            let writer = scope.spawn(move || {
                node_ref.self_node_state().set(&k, "v1");
            });
            // wait until the writer is inside the dispatch (holding the listeners' read lock)
            if entered_rx.recv_timeout(std::time::Duration::from_secs(5)).is_err() {
                let _ = release_tx.send(());
                let _ = writer.join();
                return Ok(usize::MAX); // machine too loaded to set the schedule up: no verdict
            }
            let (about_tx, about_rx) = mpsc::channel::<()>();
            let vc_at_drop = victim_calls.clone();
            let dropper = scope.spawn(move || {
                let _ = about_tx.send(());
                drop(victim);
                // the drop has returned: from this instant on the subscription must stay silent
                vc_at_drop.load(Ordering::SeqCst)
            });
            let _ = about_rx.recv_timeout(std::time::Duration::from_secs(5));
            // give the dropper a moment to reach the lock while the dispatch is still in progress
            std::thread::sleep(std::time::Duration::from_millis(15));
            let _ = release_tx.send(());
            let _ = writer.join();
            let at_drop = dropper.join().unwrap_or(usize::MAX - 1);
            let now = victim_calls.load(Ordering::SeqCst);
            if at_drop != usize::MAX - 1 && now != at_drop {
                return Err(Failure::new(
                    "C15/dropped-handle-still-called",
                    format!("a subscription on prefix {prefix:?} was called {} more time(s) for key {key:?} after the drop of its handle had returned (the drop happened on another thread while a dispatch was in progress)", now - at_drop),
                ));
            }
        } else {
            drop(victim);
            let _ = release_tx.send(());
        }
        Ok(0)
    })?;
    if calls_after_drop == usize::MAX {
        tally.discard("dispatch did not start within 5 s");
        return Ok(());
    }
    // The drop has returned: from now on the dropped subscription must stay silent.
    let before = victim_calls.load(Ordering::SeqCst);
    let r = guard(|| {
        node.self_node_state().set(&key, "v2");
        node.self_node_state().set(&key, "v3");
    });
    if let Err(p) = r {
        return Err(Failure::new(format!("C15/{}", p.signature()), p.describe()));
    }
    let after = victim_calls.load(Ordering::SeqCst);
    drop(blocker);
    drop(keep);
    if after != before {
        return Err(Failure::new(
            "C15/dropped-handle-still-called",
            format!("a subscription on prefix {prefix:?} whose handle was dropped {} was called {} more times for key {key:?} after the drop had returned", if case.during_dispatch { "while another thread was dispatching an event" } else { "between events" }, after - before),
        ));
    }
    if case.during_dispatch {
        tally.nontrivial(str_hash(&format!("{case:?}")));
        tally.label("drop_during_dispatch");
        tally.sample(|| serde_json::to_value(case).unwrap());
    }
    Ok(())
}

pub fn drop_race_strategy() -> impl Strategy<Value = DropRaceCase> {
    (proptest::collection::vec(0u8..4, 0..=2), proptest::collection::vec(0u8..4, 0..=2), 0u8..4, 0u8..4, prop_oneof![4 => Just(true), 1 => Just(false)])
        .prop_map(|(prefix, key_tail, others_before, others_after, during_dispatch)| DropRaceCase { prefix, key_tail, others_before, others_after, during_dispatch })
}

pub fn run_drop_race(ctx: &Ctx, report: &mut Report) {
    // Real threads with a 15 ms overlap per case: a modest fixed number of cases.
    report.push(run_proptest(ctx, "drop-during-dispatch", ctx.cases(320, 8_000), 50, drop_race_strategy, exec_drop_race));
}

pub fn replay_drop_race(ctx: &Ctx, sub: &str, case: &serde_json::Value) -> SubResult {
    replay_case::<DropRaceCase, _>(ctx, sub, case, exec_drop_race)
}

// ------------------------------------------------------------------------------------------
// An event is dispatched while a handle drop is *in progress* on another thread (the dropped
// closure owns a value whose destructor takes a while): the dispatching side (a local write or
// the processing of a gossip message) must neither panic nor lose the event for the other
// subscriptions. Harness-scheduled: the destructor announces itself, then holds for a few tens of
// milliseconds of real time while the main thread dispatches.

#[derive(Clone, Debug, Serialize, Deserialize)]
pub struct SlowDropCase {
    pub prefix: Vec<u8>,
    pub key_tail: Vec<u8>,
    /// The event comes from a gossip message about another member (true) or from a local write.
    pub via_message: bool,
    pub hold_ms: u8,
}

struct SlowDrop {
    entered: std::sync::Mutex<std::sync::mpsc::Sender<()>>,
    hold: std::time::Duration,
}

impl Drop for SlowDrop {
    fn drop(&mut self) {
        let _ = self.entered.lock().unwrap().send(());
        std::thread::sleep(self.hold);
    }
}

pub fn exec_slow_drop(case: &SlowDropCase, tally: &mut Tally, prop: &str) -> Result<(), Failure> {
    use std::sync::atomic::{AtomicUsize, Ordering};
    use std::sync::mpsc;
    let fd = FdCfg::default();
    let owner_id = simple_id("owner", 0, 7111);
    let mut node = build_node(&owner_id, "c", Duration::from_nanos(GRACE_NS), &fd, false, 0).chitchat;
    let prefix = sym_string(&case.prefix);
    let key = format!("{prefix}{}", sym_string(&case.key_tail));
    let (entered_tx, entered_rx) = mpsc::channel::<()>();
    let slow = SlowDrop { entered: std::sync::Mutex::new(entered_tx), hold: std::time::Duration::from_millis(20 + case.hold_ms as u64 % 60) };
    let victim = node.subscribe_event(prefix.clone(), move |_| {
        let _ = &slow;
    });
    let witness_calls = std::sync::Arc::new(AtomicUsize::new(0));
    let wc = witness_calls.clone();
    let witness = node.subscribe_event(prefix.clone(), move |_| {
        wc.fetch_add(1, Ordering::SeqCst);
    });
    // the message variant: a delta about another member carrying the key
    let other = WId::v4("other", 0, 7112);
    let msg = {
        let ops = vec![WOp::Node { id: other.clone(), last_gc: 0, from_version: 0 }, WOp::Kv(WKv { key: key.clone(), value: "v".into(), version: 1, status: 0 })];
        let (bytes, _) = encode_msg(&WMsg::Ack { ops }, Blocking::Canonical);
        real_decode(&bytes).map(|(m, _)| m).map_err(|e| Failure::new(format!("{prop}/setup"), e))?
    };
    if case.via_message {
        // make the member known first (a delta about an unknown member is ignored)
        let (bytes, _) = encode_msg(&WMsg::Syn { cluster_id: "c".into(), digest: vec![WNodeDigest { id: other.clone(), heartbeat: 1, last_gc: 0, max_version: 0 }] }, Blocking::Canonical);
        if let Ok((m, _)) = real_decode(&bytes) {
            node.verif_process_message(m);
        }
    }
    let outcome = std::thread::scope(|scope| -> Result<Option<PanicInfo>, ()> {
        let dropper = scope.spawn(move || drop(victim));
        if entered_rx.recv_timeout(std::time::Duration::from_secs(5)).is_err() {
            let _ = dropper.join();
            return Err(());
        }
        // the drop is in progress now
        let r = guard(|| {
            if case.via_message {
                node.verif_process_message(msg);
            } else {
                node.self_node_state().set(&key, "v");
            }
        });
        let _ = dropper.join();
        Ok(r.err())
    });
    match outcome {
        Err(()) => {
            tally.discard("the destructor did not start within 5 s");
            return Ok(());
        }
        Ok(Some(p)) => {
            return Err(Failure::new(format!("{prop}/{}", p.signature()), format!("{} while a listener handle was being dropped on another thread panicked: {}", if case.via_message { "processing a gossip message" } else { "a local write" }, p.describe())));
        }
        Ok(None) => {}
    }
    if witness_calls.load(Ordering::SeqCst) != 1 {
        return Err(Failure::new(format!("{prop}/event-lost-during-handle-drop"), format!("another subscription on prefix {prefix:?} was called {} times (expected once) for key {key:?} written while a handle drop was in progress", witness_calls.load(Ordering::SeqCst))));
    }
    drop(witness);
    tally.nontrivial(str_hash(&format!("{case:?}")));
    tally.label(if case.via_message { "message_during_handle_drop" } else { "local_write_during_handle_drop" });
    Ok(())
}

pub fn slow_drop_strategy() -> impl Strategy<Value = SlowDropCase> {
    (proptest::collection::vec(0u8..4, 0..=2), proptest::collection::vec(0u8..4, 0..=2), any::<bool>(), any::<u8>()).prop_map(|(prefix, key_tail, via_message, hold_ms)| SlowDropCase { prefix, key_tail, via_message, hold_ms })
}

pub fn run_slow_drop(ctx: &Ctx, report: &mut Report) {
    let prop = ctx.prop.clone();
    report.push(run_proptest(ctx, "event-during-handle-drop", ctx.cases(96, 2_400), 20, slow_drop_strategy, move |c, t| exec_slow_drop(c, t, &prop)));
}

pub fn replay_slow_drop(ctx: &Ctx, sub: &str, case: &serde_json::Value) -> SubResult {
    let prop = ctx.prop.clone();
    replay_case::<SlowDropCase, _>(ctx, sub, case, move |c, t| exec_slow_drop(c, t, &prop))
}
