//! Engine E5: failure detection through SYN digests on the virtual clock (C10, C11).

use std::time::Duration;

use chitchat::{Chitchat, ChitchatConfig, ChitchatId, FailureDetectorConfig};
use proptest::prelude::*;
use serde::{Deserialize, Serialize};
use serde_json::json;

use crate::common::*;
use crate::util::*;
use crate::wire::*;

#[derive(Clone, Debug, Serialize, Deserialize)]
pub struct FdCfgNs {
    pub phi: f64,
    pub window: usize,
    pub max_interval_ns: u64,
    pub initial_interval_ns: u64,
    /// The observer is configured with an application liveness predicate (a READY key) that the
    /// member never satisfies: the failure detector's live/dead classification must not depend on it.
    #[serde(default)]
    pub predicate: bool,
    /// Dead-node grace period of the observer (None: 400 days, i.e. never within a history).
    #[serde(default)]
    pub dead_grace_ns: Option<u64>,
}

impl FdCfgNs {
    /// T = phi * max(max_interval, initial_interval), in ns (f64).
    pub fn deadline_ns(&self) -> f64 {
        self.phi * self.max_interval_ns.max(self.initial_interval_ns) as f64
    }
}

#[derive(Clone, Copy, Debug, Serialize, Deserialize)]
pub enum Dt {
    Zero,
    /// 1 ns .. 1 us
    Eps(u16),
    /// fraction (0..=65535)/65535 of max_interval
    FracMax(u16),
    /// max_interval + small
    JustAboveMax(u16),
    /// deadline T times 1 + k/4 (long silence)
    Silence(u8),
    /// exactly up to last_fresh + T * (1 + sign * 1e-6) (clamped at >= 0)
    ToDeadline(i8),
    /// up to last_fresh + T*(1+1e-9) + 1us + small
    JustPastDeadline(u16),
}

#[derive(Clone, Copy, Debug, Serialize, Deserialize)]
pub enum FdEv {
    /// Strictly higher heartbeat (by `inc` >= 1).
    Fresh { dt: Dt, inc: u8 },
    /// Heartbeat <= highest seen (equal if back == 0); delivered to the twin only.
    Stale { dt: Dt, back: u8 },
    Eval { dt: Dt },
    /// External catch-up call for the member (a strictly higher max version each time, so that it
    /// is applied): not a heartbeat observation. C10: on the observed node; C11: on the twin only.
    CatchUp { dt: Dt },
    /// A delta about the member that forces a reset of the observer's copy (its watermark jumps):
    /// delivered to both observers. Key-value replication must not disturb heartbeat bookkeeping.
    ResetCopy { dt: Dt },
}

#[derive(Clone, Debug, Serialize, Deserialize)]
pub struct FdCase {
    pub cfg: FdCfgNs,
    pub events: Vec<FdEv>,
    /// Where the member's heartbeat counter starts: 0 -> 0, 1 -> 2^63 - 3, 2 -> 2^63 + 2,
    /// 3 -> u64::MAX - 70,000 (heartbeats are arbitrary u64 values on the wire).
    #[serde(default)]
    pub hb_base: u8,
}

fn observer(cfg: &FdCfgNs, name: &str) -> Chitchat {
    let id = simple_id(name, 0, 7801);
    let (_tx, rx) = tokio::sync::watch::channel(Default::default());
    let config = ChitchatConfig {
        chitchat_id: id.clone(),
        cluster_id: "c".into(),
        gossip_interval: Duration::from_secs(1),
        listen_addr: id.gossip_advertise_addr,
        seed_nodes: vec![],
        failure_detector_config: FailureDetectorConfig::new(
            cfg.phi,
            cfg.window,
            Duration::from_nanos(cfg.max_interval_ns),
            Duration::from_nanos(cfg.initial_interval_ns),
            cfg.dead_grace_ns.map(Duration::from_nanos).unwrap_or(Duration::from_secs(400 * 24 * 3600)),
        ),
        marked_for_deletion_grace_period: Duration::from_secs(3600),
        catchup_callback: None,
        extra_liveness_predicate: if cfg.predicate { Some(Box::new(|ns: &chitchat::NodeState| ns.get("READY") == Some("true"))) } else { None },
    };
    Chitchat::with_chitchat_id_and_seeds(config, rx, vec![])
}

fn member() -> WId {
    WId::v4("x", 0, 7900)
}

fn digest_msg(hb: u64, relay: bool) -> chitchat::ChitchatMessage {
    // A relay's digest mentions the relay itself too.
    let mut digest = vec![WNodeDigest { id: member(), heartbeat: hb, last_gc: 0, max_version: 0 }];
    if relay {
        digest.push(WNodeDigest { id: WId::v4("relay", 0, 7950), heartbeat: 1, last_gc: 0, max_version: 0 });
    }
    sort_digest_real_order(&mut digest);
    let (bytes, _) = encode_msg(&WMsg::Syn { cluster_id: "c".into(), digest }, Blocking::Canonical);
    real_decode(&bytes).expect("syn decodes").0
}

fn dt_ns(dt: Dt, cfg: &FdCfgNs, now: u128, last_fresh: Option<u128>) -> u64 {
    let t = cfg.deadline_ns();
    match dt {
        Dt::Zero => 0,
        Dt::Eps(e) => 1 + (e as u64 % 1000),
        Dt::FracMax(f) => ((cfg.max_interval_ns as u128 * f as u128) / 65_535) as u64,
        Dt::JustAboveMax(e) => cfg.max_interval_ns + 1 + e as u64,
        Dt::Silence(k) => (t * (1.0 + k as f64 / 4.0)) as u64 + 2_000,
        Dt::ToDeadline(sign) => {
            let Some(lf) = last_fresh else { return 1_000 };
            let target = lf as f64 + t * (1.0 + sign.signum() as f64 * 1e-6);
            if target > now as f64 {
                (target - now as f64) as u64
            } else {
                0
            }
        }
        Dt::JustPastDeadline(e) => {
            let Some(lf) = last_fresh else { return 1_000 };
            let target = lf as f64 + t * (1.0 + 1e-9) + 1_000.0 + 2.0 + e as f64;
            if target > now as f64 {
                (target - now as f64).ceil() as u64 + 1
            } else {
                0
            }
        }
    }
}

fn vio<T>(sig: &str, msg: String) -> Result<T, Failure> {
    Err(Failure::new(sig, msg))
}

fn classify(node: &Chitchat, id: &ChitchatId) -> (bool, bool) {
    (node.live_nodes().any(|x| x == id), node.dead_nodes().any(|x| x == id))
}

/// `prop` selects which oracle raises: C10 (completeness + fewer-than-two) or C11 (twin).
pub fn exec_fd(case: &FdCase, tally: &mut Tally, prop: &str) -> Result<(), Failure> {
    with_paused_runtime(async {
        let cfg = &case.cfg;
        let xid = member().to_real();
        let mut main = observer(cfg, "obs");
        let mut twin = observer(cfg, "obs");
        let mut now: u128 = 0;
        let mut hb: u64 = [0u64, (1u64 << 63) - 3, (1u64 << 63) + 2, u64::MAX - 70_000][case.hb_base as usize % 4];
        if hb != 0 {
            tally.label("heartbeats_in_the_upper_half_of_u64");
        }
        // Observation log (times of strictly increasing heartbeat values).
        let mut fresh_times: Vec<u128> = Vec::new();
        let mut last_dead_eval: Option<u128> = None;
        let mut evals = 0u32;
        let mut filled_window = false;
        let mut alternations = 0u32;
        let mut last_class: Option<bool> = None;
        let mut stale_between_straddle = false;
        let mut stale_since_eval = false;
        let mut accepted_intervals = 0usize;
        let mut catchups = 0u64;
        let mut resets = 0u64;
        let t_ns = cfg.deadline_ns();
        for (step, ev) in case.events.iter().enumerate() {
            match *ev {
                FdEv::Fresh { dt, inc } => {
                    let d = dt_ns(dt, cfg, now, fresh_times.last().copied());
                    advance_ns(d).await;
                    now += d as u128;
                    hb += inc.max(1) as u64;
                    let r = guard(|| {
                        main.verif_process_message(digest_msg(hb, inc % 2 == 0));
                        twin.verif_process_message(digest_msg(hb, inc % 2 == 0));
                    });
                    if let Err(p) = r {
                        return vio(&format!("{prop}/{}", p.signature()), p.describe());
                    }
                    if let Some(prev) = fresh_times.last() {
                        if fresh_times.len() >= 2 && now - prev <= cfg.max_interval_ns as u128 {
                            accepted_intervals += 1;
                            if accepted_intervals > cfg.window {
                                filled_window = true;
                            }
                        }
                    }
                    fresh_times.push(now);
                }
                FdEv::Stale { dt, back } => {
                    let d = dt_ns(dt, cfg, now, fresh_times.last().copied());
                    advance_ns(d).await;
                    now += d as u128;
                    // (only once a fresh value has been delivered: with a non-zero counter base the
                    // base itself has not been observed by anybody yet)
                    if !fresh_times.is_empty() {
                        // back >= 200: a tiny value (an old incarnation's counter, a crafted digest)
                        let v = if back >= 200 { (back as u64 - 199).min(hb) } else { hb.saturating_sub(back as u64).max(1) };
                        if let Err(p) = guard(|| twin.verif_process_message(digest_msg(v, back % 2 == 1))) {
                            return vio(&format!("{prop}/{}", p.signature()), p.describe());
                        }
                        if prop == "C10" {
                            // Completeness must hold whatever stale values relays keep sending:
                            // here the observed node receives them too.
                            if let Err(p) = guard(|| main.verif_process_message(digest_msg(v, back % 2 == 1))) {
                                return vio(&format!("{prop}/{}", p.signature()), p.describe());
                            }
                        }
                        stale_since_eval = true;
                        tally.label("stale_digest");
                    }
                }
                FdEv::CatchUp { dt } => {
                    let d = dt_ns(dt, cfg, now, fresh_times.last().copied());
                    advance_ns(d).await;
                    now += d as u128;
                    catchups += 1;
                    let r = guard(|| {
                        twin.reset_node_state_if_update(&xid, Vec::new().into_iter(), catchups, 0);
                        if prop == "C10" {
                            main.reset_node_state_if_update(&xid, Vec::new().into_iter(), catchups, 0);
                        }
                    });
                    if let Err(p) = r {
                        return vio(&format!("{prop}/{}", p.signature()), p.describe());
                    }
                    stale_since_eval = true;
                    tally.label("catch_up_call");
                }
                FdEv::ResetCopy { dt } => {
                    let d = dt_ns(dt, cfg, now, fresh_times.last().copied());
                    advance_ns(d).await;
                    now += d as u128;
                    if hb >= 1 {
                        resets += 1;
                        let ops = vec![WOp::Node { id: member(), last_gc: resets * 10, from_version: 0 }, WOp::SetMax(resets * 10)];
                        let (bytes, _) = encode_msg(&WMsg::Ack { ops }, Blocking::Canonical);
                        let r = guard(|| {
                            main.verif_process_message(real_decode(&bytes).expect("ack decodes").0);
                            twin.verif_process_message(real_decode(&bytes).expect("ack decodes").0);
                        });
                        if let Err(p) = r {
                            return vio(&format!("{prop}/{}", p.signature()), p.describe());
                        }
                        tally.label("copy_reset");
                    }
                }
                FdEv::Eval { dt } => {
                    let d = dt_ns(dt, cfg, now, fresh_times.last().copied());
                    advance_ns(d).await;
                    now += d as u128;
                    if let Err(p) = guard(|| {
                        main.verif_update_nodes_liveness();
                        twin.verif_update_nodes_liveness();
                    }) {
                        return vio(&format!("{prop}/{}", p.signature()), p.describe());
                    }
                    evals += 1;
                    let (live, dead) = classify(&main, &xid);
                    let known = main.node_state(&xid).is_some();
                    if !known {
                        continue;
                    }
                    if live == dead {
                        return vio(&format!("{prop}/not-classified"), format!("step {step}: member is live={live} dead={dead} right after an evaluation"));
                    }
                    if let Some(prev) = last_class {
                        if prev != live {
                            alternations += 1;
                        }
                    }
                    last_class = Some(live);
                    if prop == "C10" {
                        // Completeness.
                        if let Some(lf) = fresh_times.last() {
                            let silent = (now - lf) as f64;
                            if silent > t_ns * (1.0 + 1e-9) + 1_000.0 && live {
                                return vio("C10/silent-member-live", format!("step {step}: no fresh heartbeat for {:.6} s > phi x max(max_interval, initial_interval) = {:.6} s, yet the member is live (phi {}, window {}, max_interval {} ns, initial {} ns, {} arrivals)", silent / 1e9, t_ns / 1e9, cfg.phi, cfg.window, cfg.max_interval_ns, cfg.initial_interval_ns, fresh_times.len()));
                            }
                        }
                        // Evidence: live needs two fresh observations <= max_interval apart, the
                        // later one after the last evaluation that classified the member dead.
                        if live {
                            let ok = fresh_times.windows(2).any(|w| w[1] - w[0] <= cfg.max_interval_ns as u128 && last_dead_eval.map(|e| w[1] >= e).unwrap_or(true));
                            if !ok {
                                return vio("C10/live-without-two-observations", format!("step {step}: member live but no two fresh observations within max_interval since the last dead evaluation ({} observations in total)", fresh_times.len()));
                            }
                        }
                    }
                    if prop == "C11" {
                        let (tl, td) = classify(&twin, &xid);
                        if (tl, td) != (live, dead) {
                            return vio("C11/stale-digest-changed-classification", format!("step {step}: node without stale digests says live={live}, twin that also received stale digests says live={tl}"));
                        }
                        let h1 = main.node_state(&xid).map(|ns| u64::from(ns.heartbeat()));
                        let h2 = twin.node_state(&xid).map(|ns| u64::from(ns.heartbeat()));
                        if h1 != h2 {
                            return vio("C11/stale-digest-changed-heartbeat", format!("step {step}: stored heartbeat {h1:?} vs twin {h2:?}"));
                        }
                        if live && fresh_times.len() < 2 {
                            return vio("C11/live-before-two-heartbeats", format!("step {step}: live after {} observed heartbeat values", fresh_times.len()));
                        }
                        if stale_since_eval {
                            if let Some(lf) = fresh_times.last() {
                                let silent = (now - lf) as f64;
                                if silent > t_ns * 0.5 {
                                    stale_between_straddle = true;
                                }
                            }
                        }
                    }
                    if dead {
                        last_dead_eval = Some(now);
                    }
                    stale_since_eval = false;
                }
            }
        }
        tally.sum("evaluations_of_liveness", evals as u64);
        if filled_window {
            tally.label("window_wrapped");
        }
        if alternations >= 2 {
            tally.label("dead_live_dead_alternation");
        }
        let nontrivial = match prop {
            "C10" => filled_window || alternations >= 2,
            _ => stale_between_straddle,
        };
        if nontrivial {
            tally.nontrivial(str_hash(&format!("{case:?}")));
            tally.sample(|| json!({"cfg": case.cfg, "events": case.events.iter().take(16).map(|e| format!("{e:?}")).collect::<Vec<_>>(), "n_events": case.events.len()}));
        }
        Ok(())
    })
}

// ------------------------------------------------------------------------------------------
// Accuracy: steady heartbeats are never flagged.

#[derive(Clone, Debug, Serialize, Deserialize)]
pub struct AccCase {
    pub window: usize,
    pub max_interval_ns: u64,
    pub initial_interval_ns: u64,
    /// gap bounds as fractions of max_interval: a <= b <= max_interval
    pub a_frac: u16,
    pub b_frac: u16,
    /// phi = bound * (1 + margin_ppb * 1e-9), clamped into [0.5, 16] by construction of a/b
    pub margin_ppb: u32,
    /// per arrival: (gap position in [a,b], evaluation position within the following gap or none)
    pub arrivals: Vec<(u16, Option<u16>)>,
    /// Indices of arrivals preceded by an outage: a silence longer than the death deadline, during
    /// which an evaluation declares the member dead; the steady schedule then resumes.
    #[serde(default)]
    pub outages: Vec<u16>,
    /// Exactly tight case with exact binary arithmetic: every gap equals a = initial_interval
    /// (a dyadic number of seconds), b = k * a = max_interval, phi_threshold = k exactly, and an
    /// evaluation falls exactly b after the last heartbeat (lost rounds). (a selector, k)
    #[serde(default)]
    pub exact_tight: Option<(u8, u8)>,
}

fn exec_exact_tight(case: &AccCase, a_sel: u8, k: u8, tally: &mut Tally) -> Result<(), Failure> {
    with_paused_runtime(async {
        let a_ns: u64 = [250_000_000u64, 500_000_000, 1_000_000_000, 1_500_000_000, 2_000_000_000][a_sel as usize % 5];
        let k = (k % 4 + 1) as u64;
        let b_ns = a_ns * k;
        let cfg = FdCfgNs { phi: k as f64, window: case.window, max_interval_ns: b_ns, initial_interval_ns: a_ns, predicate: case.window % 5 == 0, dead_grace_ns: None };
        let xid = member().to_real();
        let mut node = observer(&cfg, "obs");
        let n = case.arrivals.len().clamp(4, 60) as u64;
        for hb in 1..=n {
            if hb > 1 {
                advance_ns(a_ns).await;
            }
            if let Err(p) = guard(|| node.verif_process_message(digest_msg(hb, false))) {
                return vio(&format!("C11/{}", p.signature()), p.describe());
            }
        }
        // k - 1 rounds are lost: the evaluation falls exactly b after the last heartbeat
        advance_ns(b_ns).await;
        if let Err(p) = guard(|| node.verif_update_nodes_liveness()) {
            return vio(&format!("C11/{}", p.signature()), p.describe());
        }
        if !classify(&node, &xid).0 {
            return vio("C11/steady-member-flagged", format!("every gap is a = initial_interval = {a_ns} ns, b = max_interval = {b_ns} ns, phi_threshold = b/a = {k} exactly: the member is reported dead exactly b after heartbeat #{n} (all quantities are exact in binary floating point)"));
        }
        tally.nontrivial(str_hash(&format!("exact {a_sel} {k} {} {}", case.window, n)));
        tally.label("exactly_tight_threshold");
        Ok(())
    })
}

pub fn exec_accuracy(case: &AccCase, tally: &mut Tally) -> Result<(), Failure> {
    if let Some((a_sel, k)) = case.exact_tight {
        return exec_exact_tight(case, a_sel, k, tally);
    }
    with_paused_runtime(async {
        let b = ((case.max_interval_ns as u128 * case.b_frac.max(1) as u128) / 65_535).max(1) as u64;
        let a = ((b as u128 * case.a_frac.max(1) as u128) / 65_535).max(1) as u64;
        // Construction instead of rejection: keep b / min(a, initial) <= 15.9 so that phi fits [0.5, 16].
        let initial = case.initial_interval_ns.max((b as f64 / 15.9).ceil() as u64 + 1);
        let bound = b as f64 / (a.min(initial) as f64);
        let phi = (bound * (1.0 + 1e-9 + case.margin_ppb as f64 * 1e-9)).min(16.0).max(0.5);
        if phi < bound * (1.0 + 1e-9) {
            tally.discard("phi outside [0.5, 16]");
            return Ok(());
        }
        let mut cfg = FdCfgNs { phi, window: case.window, max_interval_ns: case.max_interval_ns, initial_interval_ns: initial, predicate: case.window % 5 == 0, dead_grace_ns: None };
        // Outages: an ordinary one is shorter than the dead-node grace period (4 x its length); a
        // long one (every third window size) lasts beyond it with no evaluation until the steady
        // schedule has delivered three heartbeats again - the member must then be live, not collected.
        let silence = (cfg.deadline_ns() * 1.5) as u64 + cfg.max_interval_ns + 1_000;
        let grace = silence.saturating_mul(4);
        cfg.dead_grace_ns = Some(grace);
        let long_outages = case.window % 3 == 0;
        let xid = member().to_real();
        let mut node = observer(&cfg, "obs");
        let mut hb = 0u64;
        let mut observations = 0usize;
        let mut checked = 0u32;
        let gap_of = |pos: u16| -> u64 { a + (((b - a) as u128 * pos as u128) / 65_535) as u64 };
        let outage_at: std::collections::HashSet<usize> = if case.arrivals.len() > 2 { case.outages.iter().map(|o| 1 + (*o as usize % (case.arrivals.len() - 1))).collect() } else { Default::default() };
        let mut outages_done = 0u32;
        let mut quiet_until_three = false;
        for (i, (pos, eval)) in case.arrivals.iter().enumerate() {
            if outage_at.contains(&i) {
                // Silence beyond the deadline (and beyond max_interval), with an evaluation inside.
                advance_ns(silence).await;
                if let Err(p) = guard(|| node.verif_update_nodes_liveness()) {
                    return vio(&format!("C11/{}", p.signature()), p.describe());
                }
                if long_outages {
                    advance_ns(grace + 1_000).await;
                    quiet_until_three = true;
                    tally.label("outage_longer_than_the_dead_node_grace_period");
                }
                if classify(&node, &xid).0 && observations >= 1 {
                    // (completeness is C10's business; here it only matters that the outage is over)
                }
                advance_ns(1_000).await;
                hb += 1;
                if let Err(p) = guard(|| node.verif_process_message(digest_msg(hb, false))) {
                    return vio(&format!("C11/{}", p.signature()), p.describe());
                }
                observations = 1;
                outages_done += 1;
                continue;
            }
            let gap = if i == 0 { 0 } else { gap_of(*pos) };
            // evaluation placed inside the gap that precedes this arrival (after the previous one)
            let mut spent = 0u64;
            if observations >= 3 {
                quiet_until_three = false;
            }
            if let (Some(e), true, false) = (eval, i > 0, quiet_until_three) {
                let at = ((gap as u128 * *e as u128) / 65_535) as u64;
                advance_ns(at).await;
                spent = at;
                if let Err(p) = guard(|| node.verif_update_nodes_liveness()) {
                    return vio(&format!("C11/{}", p.signature()), p.describe());
                }
                if observations >= 3 {
                    let (live, _) = classify(&node, &xid);
                    checked += 1;
                    if !live {
                        return vio("C11/steady-member-flagged", format!("arrival gaps in [{a}, {b}] ns, max_interval {} ns, initial {} ns, phi {phi} >= b/min(a, initial) = {bound}: member reported dead {at} ns after observation #{observations}", case.max_interval_ns, initial));
                    }
                }
            }
            advance_ns(gap - spent).await;
            hb += 1;
            if let Err(p) = guard(|| node.verif_process_message(digest_msg(hb, false))) {
                return vio(&format!("C11/{}", p.signature()), p.describe());
            }
            observations += 1;
        }
        tally.sum("accuracy_evaluations_checked", checked as u64);
        if checked > 0 && case.margin_ppb < 50_000_000 {
            tally.nontrivial(str_hash(&format!("{case:?}")));
            tally.label("phi_within_5_percent_of_bound");
            tally.sample(|| json!({"phi": phi, "bound": bound, "a_ns": a, "b_ns": b, "arrivals": case.arrivals.len(), "window": case.window}));
        }
        if observations > case.window + 2 {
            tally.label("window_wrapped");
        }
        if outages_done > 0 {
            tally.label("steady_after_outage");
        }
        Ok(())
    })
}

// ------------------------------------------------------------------------------------------

fn log_uniform_ns() -> impl Strategy<Value = u64> {
    // 10 ms .. 100 s, log-uniform
    (0u32..4000).prop_map(|x| (10_000_000f64 * 10f64.powf(x as f64 / 1000.0)) as u64)
}

fn cfg_strategy() -> impl Strategy<Value = FdCfgNs> {
    (5u32..=160, prop_oneof![2 => 1usize..=4, 2 => 5usize..=50, 1 => 51usize..=1000], log_uniform_ns(), log_uniform_ns(), proptest::bool::weighted(0.25))
        .prop_map(|(phi10, window, max_interval_ns, initial_interval_ns, predicate)| FdCfgNs { phi: phi10 as f64 / 10.0, window, max_interval_ns, initial_interval_ns, predicate, dead_grace_ns: None })
}

fn dt_strategy() -> impl Strategy<Value = Dt> {
    prop_oneof![
        1 => Just(Dt::Zero),
        1 => any::<u16>().prop_map(Dt::Eps),
        8 => any::<u16>().prop_map(Dt::FracMax),
        1 => Just(Dt::FracMax(65_535)),
        4 => (0u16..6000).prop_map(Dt::FracMax),
        1 => any::<u16>().prop_map(Dt::JustAboveMax),
        1 => (0u8..8).prop_map(Dt::Silence),
    ]
}

fn eval_dt_strategy() -> impl Strategy<Value = Dt> {
    prop_oneof![
        3 => (0u16..20000).prop_map(Dt::FracMax),
        1 => Just(Dt::Zero),
        2 => (-1i8..=1).prop_map(Dt::ToDeadline),
        2 => (0u16..500).prop_map(Dt::JustPastDeadline),
        1 => (0u8..8).prop_map(Dt::Silence),
    ]
}

fn event_strategy(with_stale: bool) -> BoxedStrategy<FdEv> {
    let fresh = (dt_strategy(), 1u8..4).prop_map(|(dt, inc)| FdEv::Fresh { dt, inc }).boxed();
    let eval = eval_dt_strategy().prop_map(|dt| FdEv::Eval { dt }).boxed();
    if with_stale {
        let stale = (prop_oneof![3 => dt_strategy(), 1 => (-1i8..=1).prop_map(Dt::ToDeadline)], prop_oneof![6 => 0u8..5, 1 => 200u8..204]).prop_map(|(dt, back)| FdEv::Stale { dt, back }).boxed();
        let catchup = prop_oneof![3 => dt_strategy(), 1 => (-1i8..=1).prop_map(Dt::ToDeadline)].prop_map(|dt| FdEv::CatchUp { dt }).boxed();
        let reset = dt_strategy().prop_map(|dt| FdEv::ResetCopy { dt }).boxed();
        prop_oneof![12 => fresh, 8 => stale, 8 => eval, 1 => catchup, 2 => reset].boxed()
    } else {
        prop_oneof![7 => fresh, 3 => eval].boxed()
    }
}

pub fn case_strategy(max_events: usize, with_stale: bool) -> impl Strategy<Value = FdCase> {
    (cfg_strategy(), proptest::collection::vec(event_strategy(with_stale), 1..=max_events), prop_oneof![5 => Just(0u8), 1 => 1u8..4]).prop_map(|(cfg, events, hb_base)| FdCase { cfg, events, hb_base })
}

pub fn acc_strategy(max_arrivals: usize) -> impl Strategy<Value = AccCase> {
    (
        prop_oneof![2 => 1usize..=4, 2 => 5usize..=50, 1 => 51usize..=1000],
        log_uniform_ns(),
        log_uniform_ns(),
        prop_oneof![3 => 20_000u16..=65_535, 1 => 4_200u16..20_000, 1 => Just(65_535u16)],
        prop_oneof![4 => 1u16..=65_535, 1 => Just(65_535u16)],
        prop_oneof![2 => 0u32..1_000, 2 => 0u32..50_000_000, 1 => 50_000_000u32..1_000_000_000],
        proptest::collection::vec((prop_oneof![4 => any::<u16>(), 1 => Just(65_535u16), 1 => Just(0u16)], proptest::option::weighted(0.7, prop_oneof![4 => any::<u16>(), 1 => Just(65_535u16)])), 4..=max_arrivals),
        prop_oneof![1 => Just(vec![]), 1 => proptest::collection::vec(any::<u16>(), 1..3)],
        proptest::option::weighted(0.05, (0u8..5, 0u8..4)),
    )
        .prop_map(|(window, max_interval_ns, initial_interval_ns, a_frac, b_frac, margin_ppb, arrivals, outages, exact_tight)| AccCase { window, max_interval_ns, initial_interval_ns, a_frac, b_frac, margin_ppb, arrivals, outages, exact_tight })
}

pub fn run_c10(ctx: &Ctx, report: &mut Report) {
    let max_events = ctx.tier.pick(300, 2000);
    report.push(run_proptest(ctx, "arrival-histories", ctx.cases(150_000, 500_000), 800, || case_strategy(max_events, true), |c, t| exec_fd(c, t, "C10")));
}

pub fn run_c11(ctx: &Ctx, report: &mut Report) {
    let max_events = ctx.tier.pick(200, 1500);
    report.push(run_proptest(ctx, "stale-digest-twin", ctx.cases(100_000, 400_000), 800, || case_strategy(max_events, true), |c, t| exec_fd(c, t, "C11")));
    let max_arrivals = ctx.tier.pick(150, 1500);
    report.push(run_proptest(ctx, "steady-accuracy", ctx.cases(100_000, 600_000), 800, || acc_strategy(max_arrivals), exec_accuracy));
}

pub fn replay(ctx: &Ctx, sub: &str, case: &serde_json::Value, prop: &'static str) -> SubResult {
    match sub {
        "steady-accuracy" => replay_case::<AccCase, _>(ctx, sub, case, exec_accuracy),
        _ => replay_case::<FdCase, _>(ctx, sub, case, |c, t| exec_fd(c, t, prop)),
    }
}
