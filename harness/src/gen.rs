//! Coverage-guided drive of the *same* generators and oracles as the property checks.
//!
//! proptest can draw its choices from a caller-supplied byte string (`RngAlgorithm::PassThrough`)
//! and can record the bytes a ChaCha-driven generation consumed (`RngAlgorithm::Recorder`). That
//! turns every (strategy, exec) pair of this harness into a libFuzzer target: the fuzzer mutates
//! the choice sequence, coverage feedback comes from the instrumented `chitchat` crate, the oracle
//! is the one the property check uses. A crash artifact is re-generated in the (uninstrumented)
//! harness process, shrunk with proptest's value tree and written as an ordinary JSON replay.

use std::path::PathBuf;
use std::process::{Command, Stdio};
use std::rc::Rc;

use proptest::strategy::{Strategy, ValueTree};
use proptest::test_runner::{Config, RngAlgorithm, TestRng, TestRunner};
use serde::Serialize;

use crate::common::*;
use crate::sim::Monitor;

pub struct GenTarget {
    pub prop: &'static str,
    pub sub: &'static str,
    /// Largest useful input (bytes of choice sequence).
    pub max_len: usize,
    run: Box<dyn Fn(&[u8], &mut Tally) -> Result<(), Failure>>,
    record: Box<dyn Fn(u64) -> Option<Vec<u8>>>,
    /// Self-test of the bridge: the bytes recorded for a ChaCha-generated case replay to it.
    roundtrip: Box<dyn Fn(u64) -> Option<bool>>,
    confirm: Box<dyn Fn(&Ctx, &[u8], u32) -> Option<(serde_json::Value, Failure)>>,
}

impl GenTarget {
    pub fn name(&self) -> String {
        format!("{}:{}", self.prop, self.sub)
    }
    /// Fuzz body: choice bytes -> case -> oracle.
    pub fn run(&self, data: &[u8], tally: &mut Tally) -> Result<(), Failure> {
        (self.run)(data, tally)
    }
    pub fn roundtrip(&self, seed: u64) -> Option<bool> {
        (self.roundtrip)(seed)
    }
    /// A corpus item: the bytes consumed by one ordinary (ChaCha) generation.
    pub fn record(&self, seed: u64) -> Option<Vec<u8>> {
        (self.record)(seed)
    }
}

fn pass_through(data: &[u8]) -> TestRunner {
    // (the vendored proptest continues an exhausted pass-through stream pseudo-randomly)
    let padded: Vec<u8>;
    let data = if data.is_empty() {
        padded = vec![0u8; 1];
        &padded[..]
    } else {
        data
    };
    TestRunner::new_with_rng(Config { failure_persistence: None, ..Config::default() }, TestRng::from_seed(RngAlgorithm::PassThrough, data))
}

fn make<C, S, E>(prop: &'static str, sub: &'static str, max_len: usize, strategy: S, exec: E) -> GenTarget
where
    C: std::fmt::Debug + Clone + Serialize + 'static,
    S: Strategy<Value = C> + 'static,
    E: Fn(&C, &mut Tally) -> Result<(), Failure> + 'static,
{
    let strategy = Rc::new(strategy);
    let exec = Rc::new(exec);
    let (s1, e1) = (strategy.clone(), exec.clone());
    let s2 = strategy.clone();
    let s4 = strategy.clone();
    let (s3, e3) = (strategy, exec);
    GenTarget {
        prop,
        sub,
        max_len,
        run: Box::new(move |data, tally| {
            let mut runner = pass_through(data);
            let Ok(tree) = s1.new_tree(&mut runner) else { return Ok(()) };
            let case = tree.current();
            e1(&case, tally)
        }),
        record: Box::new(move |seed| {
            let mut runner = TestRunner::new_with_rng(Config { failure_persistence: None, ..Config::default() }, TestRng::from_seed(RngAlgorithm::Recorder, &derive_seed(seed, "gen", "corpus", 0)));
            s2.new_tree(&mut runner).ok()?;
            Some(runner.bytes_used())
        }),
        roundtrip: Box::new(move |seed| {
            let mut runner = TestRunner::new_with_rng(Config { failure_persistence: None, ..Config::default() }, TestRng::from_seed(RngAlgorithm::Recorder, &derive_seed(seed, "gen", "corpus", 0)));
            let original = s4.new_tree(&mut runner).ok()?.current();
            let bytes = runner.bytes_used();
            let mut replayer = pass_through(&bytes);
            let replayed = s4.new_tree(&mut replayer).ok()?.current();
            Some(format!("{original:?}") == format!("{replayed:?}"))
        }),
        confirm: Box::new(move |ctx, data, max_iters| {
            let known = |f: &Failure| ctx.known_signature(&f.signature).is_some();
            let eval = |case: &C| -> Option<Failure> {
                let mut t = Tally::default();
                match guard(|| e3(case, &mut t)) {
                    Ok(Ok(())) => None,
                    Ok(Err(f)) if known(&f) => None,
                    Ok(Err(f)) => Some(f),
                    Err(p) => Some(Failure::new(format!("{}/harness-panic", ctx.prop), p.describe())),
                }
            };
            let mut runner = pass_through(data);
            let mut tree = s3.new_tree(&mut runner).ok()?;
            let mut best_case = tree.current();
            let mut best = eval(&best_case)?;
            // proptest's shrink loop: simplify while it still fails, complicate when it passes.
            let mut iters = 0;
            if tree.simplify() {
                loop {
                    iters += 1;
                    if iters > max_iters {
                        break;
                    }
                    let case = tree.current();
                    match eval(&case) {
                        Some(f) => {
                            best = f;
                            best_case = case;
                            if !tree.simplify() {
                                break;
                            }
                        }
                        None => {
                            if !tree.complicate() {
                                break;
                            }
                        }
                    }
                }
            }
            Some((serde_json::to_value(&best_case).ok()?, best))
        }),
    }
}

fn sim_target(prop: &'static str, mon: Monitor) -> GenTarget {
    make(prop, "histories", 16_384, crate::sim::case_strategy(mon, 80), move |c, t| crate::sim::exec_sim(c, mon, t))
}

/// Every (strategy, oracle) pair that has a coverage-guided campaign in the thorough tier.
pub fn target(name: &str) -> Option<GenTarget> {
    let (prop, sub) = name.split_once(':')?;
    Some(match (prop, sub) {
        ("C01", "histories") => sim_target("C01", Monitor::C01),
        ("C02", "histories") => sim_target("C02", Monitor::C02),
        ("C03", "histories") => sim_target("C03", Monitor::C03),
        ("C04", "histories") => sim_target("C04", Monitor::C04),
        ("C05", "histories") => sim_target("C05", Monitor::C05),
        ("C06", "histories") => sim_target("C06", Monitor::C06),
        ("C12", "histories") => sim_target("C12", Monitor::C12),
        ("C13", "histories") => sim_target("C13", Monitor::C13),
        ("C16", "histories") => sim_target("C16", Monitor::C16),
        ("C20", "histories") => sim_target("C20", Monitor::C20),
        ("C04", "random-multi-member-deltas") => make("C04", "random-multi-member-deltas", 4096, crate::pairs::apply_strategy(8), |c, t| crate::pairs::exec_apply(c, t, "C04")),
        ("C20", "copy-delta-pairs") => make("C20", "copy-delta-pairs", 4096, crate::pairs::apply_strategy(7), |c, t| crate::pairs::exec_apply(c, t, "C20")),
        ("C05", "stale-deltas-about-self") => make("C05", "stale-deltas-about-self", 4096, crate::pairs::self_delta_strategy(), crate::pairs::exec_self_delta),
        ("C06", "random-owner") => make("C06", "random-owner", 4096, crate::kv::kv_case_strategy(40, false), |c, t| crate::kv::exec_kv(c, t, "C06")),
        ("C06", "random-replica") => make("C06", "random-replica", 4096, crate::kv::kv_case_strategy(40, true), |c, t| crate::kv::exec_kv(c, t, "C06")),
        ("C10", "arrival-histories") => make("C10", "arrival-histories", 4096, crate::fd::case_strategy(40, true), |c, t| crate::fd::exec_fd(c, t, "C10")),
        ("C11", "stale-digest-twin") => make("C11", "stale-digest-twin", 4096, crate::fd::case_strategy(40, true), |c, t| crate::fd::exec_fd(c, t, "C11")),
        ("C14", "random-larger-scope") => make("C14", "random-larger-scope", 4096, crate::pairs::pair_strategy(), crate::pairs::exec_pair),
        ("C15", "random-histories") => make("C15", "random-histories", 4096, crate::listen::case_strategy(), crate::listen::exec_listen),
        ("C18", "existing-x-supplied") => make("C18", "existing-x-supplied", 4096, crate::catchup::case_strategy(), crate::catchup::exec_catchup),
        ("C19", "scripted-transport") => make("C19", "scripted-transport", 2048, crate::srv::case_strategy(), crate::srv::exec_srv),
        _ => return None,
    })
}

pub fn targets_of(prop: &str) -> Vec<&'static str> {
    const ALL: [&str; 21] = [
        "C01:histories",
        "C02:histories",
        "C03:histories",
        "C04:histories",
        "C04:random-multi-member-deltas",
        "C05:histories",
        "C05:stale-deltas-about-self",
        "C06:histories",
        "C06:random-owner",
        "C06:random-replica",
        "C10:arrival-histories",
        "C11:stale-digest-twin",
        "C12:histories",
        "C13:histories",
        "C14:random-larger-scope",
        "C15:random-histories",
        "C16:histories",
        "C18:existing-x-supplied",
        "C19:scripted-transport",
        "C20:histories",
        "C20:copy-delta-pairs",
    ];
    ALL.iter().copied().filter(|n| n.starts_with(prop)).collect()
}

// ------------------------------------------------------------------------------------------
// Fuzz-process side (called from /verif/fuzz/fuzz_targets/generated.rs)

thread_local! {
    static FUZZ_TARGET: std::cell::OnceCell<(GenTarget, Vec<KnownFinding>)> = const { std::cell::OnceCell::new() };
}

/// Body of the libFuzzer target `generated`; the (property, sub-check) pair comes from the
/// environment variable VERIF_GEN_TARGET (e.g. `C02:histories`).
pub fn fuzz_body(data: &[u8]) -> Result<(), Failure> {
    FUZZ_TARGET.with(|cell| {
        let (target, known) = cell.get_or_init(|| {
            // Guarded panics of the code under test must not abort the fuzzing process: our hook
            // stays silent for them and defers to libFuzzer's (abort) for everything else.
            install_panic_hook();
            let name = std::env::var("VERIF_GEN_TARGET").unwrap_or_else(|_| "C02:histories".to_string());
            let target = target(&name).unwrap_or_else(|| panic!("unknown VERIF_GEN_TARGET {name}"));
            (target, load_known_findings())
        });
        let mut tally = Tally::default();
        match target.run(data, &mut tally) {
            Err(f) if known.iter().any(|k| k.status == "known" && k.property == target.prop && k.signature == f.signature) => Ok(()),
            r => r,
        }
    })
}

// ------------------------------------------------------------------------------------------
// Harness side: the campaign of the thorough tier

fn fuzz_binary() -> PathBuf {
    PathBuf::from(format!("{}/target/fuzz-gen/x86_64-unknown-linux-gnu/release/generated", verif_dir()))
}

fn build_fuzz_binary() -> Result<(), String> {
    let out = Command::new("cargo")
        .current_dir(format!("{}/harness", verif_dir()))
        .env("RUSTUP_TOOLCHAIN", "nightly")
        .env("CARGO_NET_OFFLINE", "true")
        .args(["fuzz", "build", "-s", "none", "--fuzz-dir", &format!("{}/fuzz", verif_dir()), "--target-dir", &format!("{}/target/fuzz-gen", verif_dir()), "generated"])
        .output()
        .map_err(|e| format!("cargo fuzz: {e}"))?;
    if !out.status.success() || !fuzz_binary().exists() {
        let err = String::from_utf8_lossy(&out.stderr);
        return Err(err.lines().rev().take(6).collect::<Vec<_>>().join(" | "));
    }
    Ok(())
}

/// One coverage-guided campaign: `jobs` libFuzzer processes sharing a corpus directory, each
/// bounded by a number of runs. Toolchain problems are recorded, not verdicts.
pub fn campaign(ctx: &Ctx, name: &str, runs_per_job: u64) -> SubResult {
    let mut res = SubResult { sub: format!("libfuzzer-gen-{}", name.split_once(':').map(|x| x.1).unwrap_or(name)), ..Default::default() };
    let Some(target) = target(name) else {
        res.tally.label("fuzz_unknown_target");
        return res;
    };
    if let Err(e) = build_fuzz_binary() {
        res.tally.label("fuzz_unavailable_or_build_failed");
        eprintln!("coverage-guided campaign for {name} did not run: {e}");
        return res;
    }
    let work = PathBuf::from(format!("{}/target/fuzz-work/gen-{}-{}", verif_dir(), name.replace(':', "-"), std::process::id()));
    let corpus = work.join("corpus");
    let artifacts = work.join("artifacts");
    let _ = std::fs::remove_dir_all(&work);
    if std::fs::create_dir_all(&corpus).is_err() || std::fs::create_dir_all(&artifacts).is_err() {
        res.tally.label("fuzz_unavailable_workdir");
        return res;
    }
    // Self-test of the byte bridge before trusting the campaign.
    for i in 0..20u64 {
        if target.roundtrip(ctx.seed.wrapping_mul(77).wrapping_add(i)) == Some(false) {
            res.tally.label("fuzz_bridge_mismatch");
            eprintln!("coverage-guided campaign for {name} skipped: recorded choice bytes do not replay to the same case");
            let _ = std::fs::remove_dir_all(&work);
            return res;
        }
    }
    let mut seeded = 0;
    for i in 0..300u64 {
        if let Some(bytes) = target.record(ctx.seed.wrapping_mul(1000).wrapping_add(i)) {
            if bytes.len() <= target.max_len && std::fs::write(corpus.join(format!("seed-{i:04}")), &bytes).is_ok() {
                seeded += 1;
            }
        }
    }
    res.tally.sum("recorded_corpus_items", seeded);
    let jobs = ctx.shards.max(1);
    let base_seed = if ctx.seed == 0 { 1 } else { ctx.seed % 0x3FFF_FFFF };
    let children: Vec<_> = (0..jobs)
        .filter_map(|j| {
            Command::new(fuzz_binary())
                .current_dir(&work)
                .env("VERIF_GEN_TARGET", name)
                .arg(&corpus)
                .arg(format!("-artifact_prefix={}/", artifacts.display()))
                .arg(format!("-runs={runs_per_job}"))
                .arg(format!("-seed={}", base_seed + j as u64))
                .arg(format!("-max_len={}", target.max_len))
                .args(["-len_control=0", "-rss_limit_mb=4096", "-timeout=120", "-print_final_stats=1", "-verbosity=0"])
                .stdout(Stdio::null())
                .stderr(Stdio::piped())
                .spawn()
                .ok()
        })
        .collect();
    let mut execs = 0u64;
    for child in children {
        if let Ok(out) = child.wait_with_output() {
            let stderr = String::from_utf8_lossy(&out.stderr);
            execs += stderr.lines().filter_map(|l| l.strip_prefix("stat::number_of_executed_units:")).filter_map(|v| v.trim().parse::<u64>().ok()).last().unwrap_or(0);
        }
    }
    res.tally.evaluations += execs;
    res.tally.sum("libfuzzer_executions", execs);
    // Crash artifacts: regenerate in-process, shrink, write an ordinary replay.
    let mut crashes: Vec<PathBuf> = std::fs::read_dir(&artifacts).map(|rd| rd.filter_map(|e| e.ok()).map(|e| e.path()).collect()).unwrap_or_default();
    crashes.sort();
    for c in crashes {
        let fname = c.file_name().map(|n| n.to_string_lossy().to_string()).unwrap_or_default();
        let Ok(data) = std::fs::read(&c) else { continue };
        if fname.starts_with("crash-") {
            match (target.confirm)(ctx, &data, 600) {
                Some((case, f)) => {
                    if res.violations.is_empty() {
                        let path = write_replay(ctx, target.sub, &case, &f);
                        res.violations.push(Violation { signature: f.signature, message: format!("found by the coverage-guided campaign, confirmed and shrunk in-process: {}", f.message), replay_path: path });
                    }
                }
                None => res.inconclusive.push(format!("libFuzzer artifact {fname} of {name} does not reproduce in-process")),
            }
        } else {
            res.tally.label(&format!("artifact_{}", fname.split('-').next().unwrap_or("other")));
        }
    }
    // What the campaign's final corpus consists of, measured with the check's own tally.
    let mut files: Vec<PathBuf> = std::fs::read_dir(&corpus).map(|rd| rd.filter_map(|e| e.ok()).map(|e| e.path()).collect()).unwrap_or_default();
    files.sort();
    let corpus_size = files.len() as u64;
    let mut corpus_tally = Tally::default();
    // (statistics only: bounded by count and by two minutes of wall clock, whichever comes first)
    let replay_started = std::time::Instant::now();
    let mut replayed = 0u64;
    for f in files.iter().take(4000) {
        if replay_started.elapsed() > std::time::Duration::from_secs(120) {
            break;
        }
        if let Ok(data) = std::fs::read(f) {
            let _ = guard(|| target.run(&data, &mut corpus_tally));
            replayed += 1;
        }
    }
    res.tally.sum("final_corpus_items_replayed", replayed);
    res.tally.sum("final_corpus_items", corpus_size);
    let nontrivial_in_corpus = corpus_tally.nontrivial.len() as u64;
    res.tally.sum("final_corpus_nontrivial", nontrivial_in_corpus);
    for (l, n) in &corpus_tally.labels {
        res.tally.label_n(&format!("corpus:{l}"), *n);
    }
    res.tally.nontrivial.extend(corpus_tally.nontrivial.iter().copied());
    if execs > 0 {
        res.tally.sample(|| serde_json::json!({"target": name, "jobs": jobs, "executions": execs, "final_corpus_items": corpus_size, "final_corpus_nontrivial": nontrivial_in_corpus}));
    } else if res.violations.is_empty() {
        res.tally.label("fuzz_unavailable_or_build_failed");
    }
    let _ = std::fs::remove_dir_all(&work);
    res
}

pub fn campaigns_for(ctx: &Ctx, report: &mut Report) {
    if !matches!(ctx.tier, Tier::Thorough) {
        return;
    }
    if !targets_of(&ctx.prop).is_empty() {
        report.rule.push_str("; sub-checks named libfuzzer-gen-<sub>: coverage-guided campaigns (libFuzzer mutating the choice bytes of the same proptest strategy, same oracle, 16 jobs sharing a corpus seeded with 300 recorded generations): evaluations = executions; non-trivial = coverage-distinct inputs of the final corpus (at most 4,000 replayed) that satisfy the rule above, counted with the check's own tally");
    }
    for name in targets_of(&ctx.prop) {
        // cluster histories cost milliseconds under coverage instrumentation, the others far less
        let base = if name.ends_with(":histories") || name.ends_with(":scripted-transport") { 30_000.0 } else { 200_000.0 };
        report.push(campaign(ctx, name, ((base * ctx.scale) as u64).max(100)));
    }
}
