//! Helpers shared by engines: value descriptors, node construction, copy views, paused runtime.

use std::collections::{BTreeMap, HashSet};
use std::net::SocketAddr;
use std::sync::atomic::{AtomicUsize, Ordering};
use std::sync::Arc;
use std::time::Duration;

use chitchat::{
    Chitchat, ChitchatConfig, ChitchatId, ChitchatMessage, DeletionStatus, Deserializable,
    FailureDetectorConfig, NodeState, Serializable,
};
use serde::{Deserialize, Serialize};

use crate::common::splitmix64;
use crate::wire::WId;

/// A value described compactly; expanded by a pure function. Shrinks on `len`.
#[derive(Clone, Copy, Debug, PartialEq, Eq, Serialize, Deserialize)]
pub struct Val {
    /// 0 tiny literal, 1 constant char, 2 hex, 3 printable ASCII, 4 high-entropy UTF-8 mix
    pub class: u8,
    pub len: u32,
    pub seed: u16,
}

impl Val {
    pub fn tiny(seed: u16) -> Val {
        Val { class: 0, len: 0, seed }
    }
    pub fn expand(&self) -> String {
        expand_value(self.class, self.len as usize, self.seed as u64)
    }
}

/// Deterministic content generator. Class 4 mixes ASCII : 2-byte : 3-byte characters as
/// 733 : 200 : 67, which zstd (level 0) stores raw in 16 KB blocks.
pub fn expand_value(class: u8, len: usize, seed: u64) -> String {
    let mut x = splitmix64(seed.wrapping_mul(0x9E37) ^ ((class as u64) << 56) ^ 0xA5A5);
    let mut next = || {
        x = splitmix64(x);
        x
    };
    match class {
        0 => format!("v{}", seed % 7),
        1 => {
            let c = (b'a' + (seed % 26) as u8) as char;
            std::iter::repeat(c).take(len).collect()
        }
        2 => {
            let mut s = String::with_capacity(len);
            while s.len() < len {
                let r = next();
                for i in 0..16 {
                    if s.len() >= len {
                        break;
                    }
                    let d = ((r >> (i * 4)) & 0xF) as u32;
                    s.push(std::char::from_digit(d, 16).unwrap());
                }
            }
            s
        }
        3 => {
            let mut s = String::with_capacity(len);
            while s.len() < len {
                let r = next();
                for i in 0..8 {
                    if s.len() >= len {
                        break;
                    }
                    let b = ((r >> (i * 8)) & 0xFF) as u8;
                    s.push((32 + (b % 95)) as char);
                }
            }
            s
        }
        _ => {
            // High-entropy UTF-8: exact byte length `len` (padded with ASCII at the end).
            let mut s = String::with_capacity(len + 4);
            while s.len() < len {
                let r = next();
                let sel = r % 1000;
                let remaining = len - s.len();
                if sel < 733 || remaining < 2 {
                    s.push(((r >> 10) % 128) as u8 as char);
                } else if sel < 933 || remaining < 3 {
                    // 2-byte: U+0080..U+07FF
                    let cp = 0x80 + ((r >> 10) % (0x800 - 0x80)) as u32;
                    s.push(char::from_u32(cp).unwrap());
                } else {
                    // 3-byte: U+0800..U+FFFF minus surrogates
                    let mut cp = 0x800 + ((r >> 10) % (0x10000 - 0x800)) as u32;
                    if (0xD800..0xE000).contains(&cp) {
                        cp -= 0x1000;
                    }
                    s.push(char::from_u32(cp).unwrap());
                }
            }
            s
        }
    }
}

pub fn status_code(status: &DeletionStatus) -> u8 {
    match status {
        DeletionStatus::Set => 0,
        DeletionStatus::Deleted(_) => 1,
        DeletionStatus::DeleteAfterTtl(_) => 2,
    }
}

#[derive(Clone, Debug, Serialize, Deserialize, PartialEq)]
pub struct FdCfg {
    pub phi: f64,
    pub window: usize,
    pub max_interval_ms: u64,
    pub initial_interval_ms: u64,
    pub dead_grace_ms: u64,
}

impl Default for FdCfg {
    fn default() -> Self {
        FdCfg {
            phi: 8.0,
            window: 1000,
            max_interval_ms: 10_000,
            initial_interval_ms: 5_000,
            dead_grace_ms: 24 * 3600 * 1000,
        }
    }
}

impl FdCfg {
    pub fn to_real(&self) -> FailureDetectorConfig {
        FailureDetectorConfig::new(
            self.phi,
            self.window,
            Duration::from_millis(self.max_interval_ms),
            Duration::from_millis(self.initial_interval_ms),
            Duration::from_millis(self.dead_grace_ms),
        )
    }
}

/// 0 = none, 1 = contains_key("a"), 2 = get("a") == Some("v1"), 3 = contains_key("ab")
pub fn make_predicate(kind: u8) -> Option<Box<dyn Fn(&NodeState) -> bool + Send>> {
    match kind {
        0 => None,
        1 => Some(Box::new(|ns: &NodeState| ns.contains_key("a"))),
        2 => Some(Box::new(|ns: &NodeState| ns.get("a") == Some("v1"))),
        3 => Some(Box::new(|ns: &NodeState| ns.contains_key("ab"))),
        // predicates that hold on a state without key-values ("not draining")
        4 => Some(Box::new(|ns: &NodeState| !ns.contains_key("a"))),
        _ => Some(Box::new(|_ns: &NodeState| true)),
    }
}

pub fn eval_predicate(kind: u8, ns: &NodeState) -> bool {
    match kind {
        0 => true,
        1 => ns.contains_key("a"),
        2 => ns.get("a") == Some("v1"),
        3 => ns.contains_key("ab"),
        4 => !ns.contains_key("a"),
        _ => true,
    }
}

pub struct NodeBuild {
    pub chitchat: Chitchat,
    pub catchup_calls: Arc<AtomicUsize>,
    // Keeps the seed watch channel alive.
    pub _seed_tx: tokio::sync::watch::Sender<HashSet<SocketAddr>>,
}

pub fn build_node(
    id: &ChitchatId,
    cluster_id: &str,
    kv_grace: Duration,
    fd: &FdCfg,
    with_callback: bool,
    predicate: u8,
) -> NodeBuild {
    build_node_seeded(id, cluster_id, kv_grace, fd, with_callback, predicate, false)
}

/// Same, optionally with a (never answering) literal seed in the configuration.
pub fn build_node_seeded(
    id: &ChitchatId,
    cluster_id: &str,
    kv_grace: Duration,
    fd: &FdCfg,
    with_callback: bool,
    predicate: u8,
    seeded: bool,
) -> NodeBuild {
    let catchup_calls = Arc::new(AtomicUsize::new(0));
    let calls = catchup_calls.clone();
    let config = ChitchatConfig {
        chitchat_id: id.clone(),
        cluster_id: cluster_id.to_string(),
        gossip_interval: Duration::from_secs(1),
        listen_addr: id.gossip_advertise_addr,
        seed_nodes: if seeded { vec!["127.0.0.1:1".to_string()] } else { Vec::new() },
        failure_detector_config: fd.to_real(),
        marked_for_deletion_grace_period: kv_grace,
        catchup_callback: if with_callback {
            Some(Box::new(move || {
                calls.fetch_add(1, Ordering::SeqCst);
            }))
        } else {
            None
        },
        extra_liveness_predicate: make_predicate(predicate),
    };
    let (seed_tx, seed_rx) = tokio::sync::watch::channel(if seeded { HashSet::from([SocketAddr::from(([127, 0, 0, 1], 1))]) } else { HashSet::new() });
    let chitchat = Chitchat::with_chitchat_id_and_seeds(config, seed_rx, Vec::new());
    NodeBuild {
        chitchat,
        catchup_calls,
        _seed_tx: seed_tx,
    }
}

pub fn simple_id(name: &str, generation: u64, port: u16) -> ChitchatId {
    WId::v4(name, generation, port).to_real()
}

/// Frontier + entries of one copy, for comparisons (values by hash).
#[derive(Clone, Debug, PartialEq, Eq)]
pub struct CopyView {
    pub gc: u64,
    pub max: u64,
    pub hb: u64,
    /// key -> (version, status, value hash, value len)
    pub entries: BTreeMap<String, (u64, u8, u64, usize)>,
}

pub fn copy_view(ns: &NodeState) -> CopyView {
    CopyView {
        gc: ns.last_gc_version(),
        max: ns.max_version(),
        hb: ns.heartbeat().into(),
        entries: ns
            .key_values_including_deleted()
            .map(|(k, vv)| {
                (
                    k.to_string(),
                    (
                        vv.version,
                        status_code(&vv.status),
                        crate::common::str_hash(&vv.value),
                        vv.value.len(),
                    ),
                )
            })
            .collect(),
    }
}

pub fn real_decode(bytes: &[u8]) -> Result<(ChitchatMessage, usize), String> {
    let mut buf = bytes;
    match ChitchatMessage::deserialize(&mut buf) {
        Ok(m) => Ok((m, buf.len())),
        Err(e) => Err(format!("{e:#}")),
    }
}

pub fn real_encode(msg: &ChitchatMessage) -> Vec<u8> {
    msg.serialize_to_vec()
}

thread_local! {
    static RT: std::cell::RefCell<Option<(tokio::runtime::Runtime, u32)>> = const { std::cell::RefCell::new(None) };
}

/// Runs `f` inside a current-thread runtime with a paused clock. The runtime is cached per
/// thread and renewed every 512 uses (the virtual clock only ever moves forward; all checks
/// use relative time).
pub fn with_paused_runtime<T>(f: impl std::future::Future<Output = T>) -> T {
    RT.with(|cell| {
        let mut slot = cell.borrow_mut();
        let renew = match slot.as_ref() {
            Some((_, n)) => *n >= 512,
            None => true,
        };
        if renew {
            let rt = tokio::runtime::Builder::new_current_thread()
                .enable_time()
                .start_paused(true)
                .build()
                .expect("runtime");
            *slot = Some((rt, 0));
        }
        let (rt, n) = slot.as_mut().unwrap();
        *n += 1;
        // If `f` panics the runtime stays usable (block_on is re-entrant after unwinding).
        rt.block_on(f)
    })
}

/// Advances the paused clock by `ns` nanoseconds.
pub async fn advance_ns(ns: u64) {
    if ns > 0 {
        tokio::time::advance(Duration::from_nanos(ns)).await;
    }
}
