//! Property table: which engines decide which property, with the evidence rule texts.

use crate::gen;
use crate::common::*;
use crate::sim::{self, Monitor};
use crate::{catchup, fd, fuzzers, hostile, kv, listen, mtu, pairs, select, srv, wirecheck};

pub fn run_property(ctx: &Ctx) -> Option<Report> {
    let r = match ctx.prop.as_str() {
        "C06" => {
            let mut r = Report::new(
                "cases = operation sequences on one node's own namespace (exhaustive up to the stated length over a 16-op alphabet, then random to length 40 under grace periods of 10 s / 1.5 s / 0.4 s / 2.000000001 s / 1 ns / 0, then a two-node replica variant with handshakes, replica GC and replica catch-up; plus cluster histories in which every marked entry a node has held for a full grace period must not survive a GC pass); \
                 non-trivial = the sequence contains a GC pass that collected something while a younger marked entry survived, or a set/delete of an already marked key, or (replica) a reset or replica-side collection; distinct = by op sequence",
            );
            r.assume("keys/values from small alphabets incl. empty and multi-byte; grace period 10 s; virtual clock");
            r.assume("whether deleting an already deleted key, or delete-after-ttl on an already marked key, allocates a version is left open by the statement: both accepted");
            kv::run(ctx, &mut r, "C06");
            // replicas inside cluster histories (resets, catch-ups): a marked entry held for a
            // full grace period does not survive a GC pass
            sim::run(ctx, &mut r, Monitor::C06, 60_000, 1_000_000);
            r
        }
        "C15" => {
            let mut r = Report::new(
                "cases = (subscription set, event history) on an owner and a replica: every key of length <= 3 over {a,b,é,😀} set locally then gossiped, under pseudo-random subscription sets, plus random histories (set/ttl/delete/gossip/stale redelivery/owner GC/drop/late subscribe/external catch-up), plus a harness-scheduled two-thread case (a handle dropped while another thread is inside a dispatch); \
                 non-trivial = a written key starts with a multi-byte character, or >= 2 active matching subscriptions of different prefix lengths, or a handle was dropped mid-history; distinct = by case",
            );
            r.assume("a set to the same value with a different status (plain vs TTL) may or may not notify; re-delivery of identical entries after a reset may or may not notify");
            listen::run(ctx, &mut r);
            listen::run_drop_race(ctx, &mut r);
            listen::run_slow_drop(ctx, &mut r);
            r.rule.push_str("; sub-check event-during-handle-drop: an event (local write or gossip message) dispatched while another thread is inside a handle drop must neither panic nor be lost for the other subscriptions; non-trivial = every case");
            r
        }
        "C17" => {
            let mut r = Report::new(
                "two sub-checks. (1) cases = (address-set structure, RNG script): every multiset of <= 6 addresses over the 15 membership combinations of {peer, live, dead, seed}, each under every scripted generator; \
                 non-trivial = empty live set, or dead outnumber live, or empty seed set, or empty dead set (the division / shortcut corners); distinct = by (structure, script). (2) the real server on a scripted transport with 0..12 peers introduced by digests (some heartbeating), seeds incl. the server's own address: per gossip round at most 5 SYNs, all to known peers or seeds, never to itself, a seed reached when no peer is live; non-trivial = own address among the seeds or no live peer",
            );
            r.assume("addresses are distinct; sets need not be nested (live need not be a subset of peers)");
            select::run(ctx, &mut r);
            srv::run_targets(ctx, &mut r);
            r
        }
        "C07" => {
            let mut r = Report::new(
                "cases = (sender state built on a real node: own namespace via the API, 0..40 other members via honest-form messages; peer digest relative to that state; size budgets) boundary-directed cases (own namespace sized by binary search so that the reply lands on the datagram limit, then swept byte by byte; optionally with members unknown to the sender in the SYN and a trailing max-version-only member), and many-keys cases (up to 100,000 tiny key-values with an early tombstone whose key sorts last);                  non-trivial = a reply was truncated (some owed entry omitted) or contained a block stored uncompressed, or the case is a boundary sweep; distinct = by case",
            );
            r.assume("strings are at most 65,535 bytes; the sender's own digest leaves at least 100 bytes");
            r.assume("the reply is decoded by the independent decoder and compared with the sender's copies read through the public API");
            mtu::run(ctx, &mut r);
            // what reaches the wire on the real transport: every emitted datagram is exactly one message
            r.push(srv::udp_smoke(ctx));
            r.rule.push_str("; sub-check udp-loopback-smoke: one real-transport run (every emitted datagram is exactly one message, also after a failed send; every message kind sent to a socket of the transport comes out of recv)");
            r.rule.push_str("; sub-check huge-digest: cases = (1..40 members whose node ids are padded so that the sender's own digest leaves 100..1,200 bytes, own key-values owed to the peer); non-trivial = every case (the reply is always truncated)");
            r
        }
        "C08" => {
            let mut r = Report::new(
                "cases = (a) model messages (SYN/SYN-ACK/ACK/BadCluster; digests of 0..2,000 members, IPv4/IPv6, ids and keys in length classes 0,1,2,7,30,255,256,300,16383,16384,16385,65535; deltas mixing headers, key-values of the 3 statuses, explicit max versions, empty members; extreme u64 values) encoded by the independent encoder with canonical / raw / compressed / mixed / tiny blocks and fed to the real decoder; (b) messages emitted by real nodes in generated states, checked against the real and the independent decoder;                  non-trivial = message with >= 2 blocks, or a block stored uncompressed, or an IPv6 id, or a boundary-class string; distinct = by message bytes",
            );
            r.assume("zstd is trusted as a codec; in canonical mode the real encoder must reproduce the independent encoder's bytes");
            wirecheck::run(ctx, &mut r);
            // the same messages through the real transport's send and receive paths
            r.push(srv::udp_smoke(ctx));
            r.push(fuzzers::corpus_replay(ctx, &["wire_decode", "wire_roundtrip"], ctx.tier.pick(400, 4000)));
            if ctx.tier == Tier::Thorough {
                r.push(fuzzers::campaign(ctx, "wire_decode", (3_000_000f64 * ctx.scale) as u64, 65_507));
                r.push(fuzzers::campaign(ctx, "wire_roundtrip", (400_000f64 * ctx.scale) as u64, 4_096));
            }
            r
        }
        "C01" | "C02" | "C03" | "C05" | "C12" | "C13" | "C16" => {
            let (mon, quick, thorough, nontrivial) = match ctx.prop.as_str() {
                "C01" => (Monitor::C01, 40_000, 1_000_000, "the prefix produced a reset, a >50 KB (truncated) reply, a mid-reset copy, a rejected delta or healed a partition with divergent copies, AND at least one copy lagged when the fair phase started"),
                "C02" => (Monitor::C02, 200_000, 2_000_000, "some copy had passed a delete/TTL write of its member and later received a delivery carrying data about that member"),
                "C03" => (Monitor::C03, 200_000, 2_000_000, ">= 3 nodes with an entry learned through a third party, or a copy rebuilt by a reset"),
                "C05" => (Monitor::C05, 200_000, 2_000_000, "a processed message mentioned the receiver itself in its digest or delta"),
                "C12" => (Monitor::C12, 200_000, 3_000_000, "a member was removed after the grace period and a later digest mentioned it"),
                "C13" => (Monitor::C13, 200_000, 3_000_000, "the live set or a live member's max version changed between two evaluations"),
                _ => (Monitor::C16, 200_000, 3_000_000, "a cross-cluster SYN was delivered and some delivery was a duplicate or out of order"),
            };
            let mut r = Report::new(&format!(
                "cases = generated histories (writes/deletes/TTL, clock advances around the grace periods, heartbeats, key GC, liveness evaluations, SYNs, deliveries in any order, drops, duplicates, cuts/heals, late joins, crashes/restarts under a new generation, held SYN-ACKs, external catch-up calls fed with a peer's copy) on 2..5 real nodes exchanging real datagrams; generator profiles: small / truncation / gc / partition / membership / trunc-gc (uniform op mixes) and deep / phased / member-phased (focused macro-level and phased generators built to reach mid-reset copies meeting delayed replies, stale peers, skewed death detection); every copy is compared with the owner ledger after every step; non-trivial = {nontrivial}; distinct = by history"
            ));
            r.assume("every ChitchatId is used by one incarnation; restarts use a new generation id; honest nodes only");
            r.assume("the owner's local API is trusted to record the ledger (checked separately by C06/C04)");
            sim::run(ctx, &mut r, mon, quick, thorough);
            if mon == Monitor::C12 {
                sim::run_memory(ctx, &mut r);
            }
            if mon == Monitor::C05 {
                pairs::run_c05_self(ctx, &mut r);
            }
            if mon == Monitor::C16 {
                // the same isolation on the real UDP transport (foreign SYN -> exactly BadCluster)
                r.push(srv::udp_smoke(ctx));
                sim::run_foreign(ctx, &mut r);
                // the real server loop: foreign SYNs arriving from dead members' addresses change nothing
                srv::run_targets(ctx, &mut r);
                r.rule.push_str("; sub-check server-round-targets: the real server loop with peers, seeds, send failures and (a quarter of the cases) foreign-cluster SYNs arriving every round from the addresses of silent peers: they must leave the live and dead sets as they are; non-trivial = own address among the seeds or no live peer");
                r.rule.push_str("; sub-check foreign-syn-runs: cases = (own cluster id of 0..1,024 bytes, a related foreign id: own+suffix / prefix / case variant / one character changed, a run of 1..1,030 foreign SYNs): each is answered with a rejection and changes nothing; non-trivial = every case");
            }
            if mon == Monitor::C01 {
                // the statement's size assumption made tight: a key-value that exactly fits
                mtu::run_max_value(ctx, &mut r);
                mtu::run_bulk(ctx, &mut r);
                r.rule.push_str("; sub-check bulk-compressible: cases = (number of small compressible entries 500..6,000, value length, text pattern, initiator), all messages through the real codec, every handshake must advance the joiner; non-trivial = more than 256 KiB of entries");
            }
            r
        }
        "C14" => {
            let mut r = Report::new(
                "cases = (sender copy, receiver copy or 'unknown member', size budget) for one member, copies installed on fresh real nodes through honest-form messages; the sender answers the receiver's own SYN, the delta is decoded independently, checked against the spec-level rule (offer iff ahead; reset iff receiver max and watermark both below sender watermark; content = prefix of sender entries above the start; explicit max version iff none) and delivered to the unchanged receiver, whose copy must equal a reference apply and strictly advance;                  non-trivial = the sender offered a delta (sub-counts reset / incremental / truncated / max-version-only / equal-boundary); distinct = by case",
            );
            r.assume("scope: watermarks and versions 0..7, <= 3 sender keys, <= 1 receiver key in the enumerated part; versions up to 1e6 and 4 keys in the random part");
            pairs::run_c14(ctx, &mut r);
            r.rule.push_str("; sub-check member-scheduled-at-receiver: the same random pairs with the member scheduled for deletion at the receiver (digest omits it, copy still held): the from-0 delta is applied as the reference apply predicts; non-trivial = the receiver's copy advanced");
            r
        }
        "C04" => {
            let mut r = Report::new(
                "three sub-checks: (a) generated cluster histories with frontier / key-version monotonicity monitors and panic capture around every honest message; (b) (copy, honest-form delta) pairs, small scope enumerated, delivered once and twice, whether or not an honest sender would have produced the delta for that copy; (c) local API sequences against the reference model (version allocation).                  non-trivial = (a) history with a duplicated or reordered delivery, (b) pair with a delta, (c) as in C06; distinct = by case",
            );
            r.assume("honest-form deltas: ascending key-values above the announced start, or an explicit max version above it");
            sim::run(ctx, &mut r, Monitor::C04, 120_000, 1_500_000);
            pairs::run_c04b(ctx, &mut r);
            kv::run(ctx, &mut r, "C04");
            r
        }
        "C20" => {
            let mut r = Report::new(
                "cases = (a) generated cluster histories with a counting catch-up callback on every node, (b) (copies, multi-member honest-form delta) pairs incl. members just created by the message's digest and duplicates; around every processed message: callback count == 1 iff some member copy's watermark rose, cross-checked with the reset rule evaluated on the independently decoded delta;                  non-trivial = a message that resets at least one copy (sub-counts: >= 2 resets in one message, narrowly avoided resets); distinct = by case",
            );
            r.assume("key GC never runs inside message processing, so a watermark rising during processing is exactly a reset");
            sim::run(ctx, &mut r, Monitor::C20, 100_000, 1_500_000);
            pairs::run_c20b(ctx, &mut r);
            r
        }
        "C10" => {
            let mut r = Report::new(
                "cases = (failure-detector configuration: phi in [0.5,16], window 1..1000, initial/max interval log-uniform over 10 ms..100 s; history of fresh heartbeat arrivals and of stale (equal / lower, relayed) heartbeats through SYN digests and liveness evaluations, with inter-arrival times from 0 to beyond max_interval, long silences, and evaluations placed at last_fresh + T(1 +- 1e-6) and just past the deadline) on the virtual clock;                  non-trivial = the sampling window wrapped around at least once or the member alternated dead -> live -> dead; distinct = by case",
            );
            r.assume("tolerance: evaluations within T*1e-9 + 1 us after the deadline are not asserted (f64 arithmetic)");
            r.assume("liveness evidence rule used: live implies two strictly increasing heartbeat observations at most max_interval apart, the later one after the last evaluation that classified the member dead");
            fd::run_c10(ctx, &mut r);
            // server level: the gossip round ends with an evaluation whatever its sends did
            srv::run_targets(ctx, &mut r);
            r.rule.push_str("; sub-check server-round-targets (real server, scripted transport, per-destination send failures, optional application liveness predicate): after >= 5 gossip rounds every heartbeating peer is live and every silent peer is in the dead set; non-trivial = own address among the seeds or no live peer");
            r
        }
        "C11" => {
            let mut r = Report::new(
                "cases = (a) metamorphic twin: two identical observers receive the same fresh heartbeat schedule, the twin additionally receives stale digests (equal, lower, relayed) at generated times incl. around the death deadline; classification and stored heartbeat must agree at every evaluation; (b) accuracy: arrivals with gaps in [a,b], b <= max_interval, phi = b/min(a,initial) x (1 + margin), evaluations anywhere inside the gaps from the third observation on must report live;                  non-trivial = (a) a stale digest arrived before an evaluation more than T/2 after the last fresh heartbeat, (b) margin below 5 %; distinct = by case",
            );
            r.assume("relative tolerance 1e-9 on the accuracy bound");
            fd::run_c11(ctx, &mut r);
            r
        }
        "C18" => {
            let mut r = Report::new(
                "cases = (existing copy: absent / empty / arbitrary incl. mid-reset / removed-and-remembered, optionally with fresh heartbeats; supplied state: any key set, versions, statuses, max version and watermark, consistent or not; optional follow-up honest-form gossip) fed to reset_node_state_if_update on a real node, next to a twin that does not receive the call;                  non-trivial = the call passed both early-return guards (supplied max above the copy's max and not below its watermark) or targets a removed member; distinct = by case",
            );
            r.assume("follow-up gossip only after well-formed supplied states (distinct versions <= supplied max)");
            catchup::run(ctx, &mut r);
            r
        }
        "C09" => {
            let mut r = Report::new(
                "cases = a victim node in a generated reachable state (own keys, up to 4 member copies incl. mid-reset ones) receives up to 20 datagrams: random bytes (optionally with a valid header), structure-aware messages from the independent encoder whose op streams are syntactically valid but semantically arbitrary (explicit max version anywhere, non-monotone versions, duplicate members, the victim's own id, extreme u64 values, non-canonical blocks), and bit-flipped / truncated / spliced variants; interleaved with clock advances and liveness evaluations;                  non-trivial = at least one datagram decoded successfully and either is not producible by an honest encoder or carries a delta about a member the victim knows; distinct = by case",
            );
            r.assume("id universe of 48 short ids so that the victim's own digest always fits a datagram (the statement's precondition); decompression bombs (memory/time exhaustion) are outside the statement");
            hostile::run(ctx, &mut r);
            // a message processed while an application thread is dropping a listener handle
            listen::run_slow_drop(ctx, &mut r);
            r.rule.push_str("; sub-check event-during-handle-drop: cases = (prefix, key, local write or gossip message, destructor hold time): an event dispatched while another thread is inside a listener-handle drop must not panic; non-trivial = every case. A death of the check process is attributed to the in-flight case (replayed alone in a fresh process)");
            r.push(fuzzers::corpus_replay(ctx, &["hostile_process", "wire_decode"]
, ctx.tier.pick(400, 4000)));
            if ctx.tier == Tier::Thorough {
                r.push(fuzzers::campaign(ctx, "hostile_process", (1_500_000f64 * ctx.scale) as u64, 65_507));
                r.push(fuzzers::campaign(ctx, "wire_decode", (2_000_000f64 * ctx.scale) as u64, 65_507));
            }
            r
        }
        "C19" => {
            let mut r = Report::new(
                "cases = scripts of up to 12 events over {next sends succeed / fail with 'message too long' or 'unreachable', valid SYN / foreign SYN / SYN-ACK / ACK / BadCluster arrives, virtual delay, user lock acquisition, user holding the lock, user gossip request, gossip-then-shutdown, a reply or tick send held back by the transport (the user must get the lock meanwhile), sustained inbound traffic on a slow transport (rounds must go on), fatal recv error, panic in recv, shutdown} against spawn_chitchat on a scripted in-process transport with the paused clock driving the gossip ticks; plus a loopback UDP smoke (garbage, truncated, bit-flipped and 65,507-byte datagrams on the real transport);                  non-trivial = script with a send error followed by a later successful exchange, or a fatal event; distinct = by script",
            );
            r.assume("single-threaded paused runtime: the schedule is a function of the script; genuinely parallel interleavings of the tokio mutex are not explored");
            r.assume("a virtual-time timeout of 1 h means deadlock/stall (deterministic); real-time timeouts in the UDP smoke are inconclusive, never a violation");
            srv::run(ctx, &mut r);
            // per-destination send failures must not truncate a round (server-level targets)
            srv::run_targets(ctx, &mut r);
            r.rule.push_str("; sub-check server-round-targets: the real server with 0..12 peers, per-destination send failures, seeds: every round still reaches its other targets and ends with a liveness evaluation");
            r
        }
        _ => return None,
    };
    let mut r = r;
    // Thorough tier: coverage-guided campaigns (libFuzzer) over the same generators and oracles.
    gen::campaigns_for(ctx, &mut r);
    Some(r)
}

pub fn replay_property(ctx: &Ctx, sub: &str, case: &serde_json::Value) -> SubResult {
    match ctx.prop.as_str() {
        "C06" => match sub {
            "histories" => sim::replay(ctx, sub, case, Monitor::C06),
            _ => kv::replay(ctx, sub, case, "C06"),
        },
        "C15" => match sub {
            "drop-during-dispatch" => listen::replay_drop_race(ctx, sub, case),
            "event-during-handle-drop" => listen::replay_slow_drop(ctx, sub, case),
            _ => listen::replay(ctx, sub, case),
        },
        "C17" => match sub {
            "server-round-targets" => srv::replay_targets(ctx, sub, case),
            _ => select::replay(ctx, sub, case),
        },
        "C07" => match sub {
            "udp-loopback-smoke" => srv::udp_smoke(ctx),
            _ => mtu::replay(ctx, sub, case),
        },
        "C08" => match sub {
            "udp-loopback-smoke" => srv::udp_smoke(ctx),
            _ => wirecheck::replay(ctx, sub, case),
        },
        "C14" => pairs::replay_c14(ctx, sub, case),
        "C18" => catchup::replay(ctx, sub, case),
        "C19" => match sub {
            "server-round-targets" => srv::replay_targets(ctx, sub, case),
            _ => srv::replay(ctx, sub, case),
        },
        "C09" => match sub {
            "event-during-handle-drop" => listen::replay_slow_drop(ctx, sub, case),
            _ => hostile::replay(ctx, sub, case),
        },
        "C10" => match sub {
            "server-round-targets" => srv::replay_targets(ctx, sub, case),
            _ => fd::replay(ctx, sub, case, "C10"),
        },
        "C11" => fd::replay(ctx, sub, case, "C11"),
        "C04" => match sub {
            "histories" => sim::replay(ctx, sub, case, Monitor::C04),
            "copy-x-delta-pairs" | "random-multi-member-deltas" => pairs::replay_apply(ctx, sub, case, "C04"),
            _ => kv::replay(ctx, sub, case, "C04"),
        },
        "C20" => match sub {
            "histories" => sim::replay(ctx, sub, case, Monitor::C20),
            _ => pairs::replay_apply(ctx, sub, case, "C20"),
        },
        "C01" => match sub {
            "max-size-value" => mtu::replay_max_value(ctx, sub, case),
            "bulk-compressible" => mtu::replay_bulk(ctx, sub, case),
            _ => sim::replay(ctx, sub, case, Monitor::C01),
        },
        "C02" => sim::replay(ctx, sub, case, Monitor::C02),
        "C03" => sim::replay(ctx, sub, case, Monitor::C03),
        "C05" => match sub {
            "stale-deltas-about-self" => pairs::replay_c05_self(ctx, sub, case),
            _ => sim::replay(ctx, sub, case, Monitor::C05),
        },
        "C12" => match sub {
            "removed-member-memory" => sim::replay_memory(ctx, sub, case),
            _ => sim::replay(ctx, sub, case, Monitor::C12),
        },
        "C13" => sim::replay(ctx, sub, case, Monitor::C13),
        "C16" => match sub {
            "udp-loopback-smoke" => srv::udp_smoke(ctx),
            "foreign-syn-runs" => sim::replay_foreign(ctx, sub, case),
            "server-round-targets" => srv::replay_targets(ctx, sub, case),
            _ => sim::replay(ctx, sub, case, Monitor::C16),
        },
        _ => {
            let mut r = SubResult::default();
            r.inconclusive.push(format!("no replay handler for {}", ctx.prop));
            r
        }
    }
}
