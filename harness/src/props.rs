//! Property table: which engines decide which property, with the evidence rule texts.

use crate::common::*;
use crate::{kv, listen, mtu, select};

pub fn run_property(ctx: &Ctx) -> Option<Report> {
    let r = match ctx.prop.as_str() {
        "C06" => {
            let mut r = Report::new(
                "cases = operation sequences on one node's own namespace (exhaustive up to the stated length over a 16-op alphabet, then random to length 40, then a two-node replica variant); \
                 non-trivial = the sequence contains a GC pass that collected something while a younger marked entry survived, or a set/delete of an already marked key, or (replica) a reset or replica-side collection; distinct = by op sequence",
            );
            r.assume("keys/values from small alphabets incl. empty and multi-byte; grace period 10 s; virtual clock");
            r.assume("whether deleting an already deleted key, or delete-after-ttl on an already marked key, allocates a version is left open by the statement: both accepted");
            kv::run(ctx, &mut r, "C06");
            r
        }
        "C15" => {
            let mut r = Report::new(
                "cases = (subscription set, event history) on an owner and a replica: every key of length <= 3 over {a,b,é,😀} set locally then gossiped, under pseudo-random subscription sets, plus random histories (set/ttl/delete/gossip/stale redelivery/owner GC/drop/late subscribe); \
                 non-trivial = a written key starts with a multi-byte character, or >= 2 active matching subscriptions of different prefix lengths, or a handle was dropped mid-history; distinct = by case",
            );
            r.assume("a set to the same value with a different status (plain vs TTL) may or may not notify; re-delivery of identical entries after a reset may or may not notify");
            listen::run(ctx, &mut r);
            r
        }
        "C17" => {
            let mut r = Report::new(
                "cases = (address-set structure, RNG script): every multiset of <= 6 addresses over the 15 membership combinations of {peer, live, dead, seed}, each under every scripted generator; \
                 non-trivial = empty live set, or dead outnumber live, or empty seed set, or empty dead set (the division / shortcut corners); distinct = by (structure, script)",
            );
            r.assume("addresses are distinct; sets need not be nested (live need not be a subset of peers)");
            select::run(ctx, &mut r);
            r
        }
        "C07" => {
            let mut r = Report::new(
                "cases = (sender state built on a real node: own namespace via the API, 0..40 other members via honest-form messages; peer digest relative to that state; size budgets) and boundary-directed cases (own namespace sized by binary search so that the reply lands on the datagram limit, then swept byte by byte);                  non-trivial = a reply was truncated (some owed entry omitted) or contained a block stored uncompressed, or the case is a boundary sweep; distinct = by case",
            );
            r.assume("strings are at most 65,535 bytes; the sender's own digest leaves at least 100 bytes");
            r.assume("the reply is decoded by the independent decoder and compared with the sender's copies read through the public API");
            mtu::run(ctx, &mut r);
            r
        }
        _ => return None,
    };
    Some(r)
}

pub fn replay_property(ctx: &Ctx, sub: &str, case: &serde_json::Value) -> SubResult {
    match ctx.prop.as_str() {
        "C06" => kv::replay(ctx, sub, case, "C06"),
        "C15" => listen::replay(ctx, sub, case),
        "C17" => select::replay(ctx, sub, case),
        "C07" => mtu::replay(ctx, sub, case),
        _ => {
            let mut r = SubResult::default();
            r.inconclusive.push(format!("no replay handler for {}", ctx.prop));
            r
        }
    }
}
