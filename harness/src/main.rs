use chitchat_verif::*;

use std::time::Instant;

use common::*;

fn usage() -> ! {
    eprintln!("usage: vcheck <PROPERTY> [--tier quick|thorough] [--replay FILE]");
    std::process::exit(2);
}

fn main() {
    let args: Vec<String> = std::env::args().collect();
    if args.len() < 2 {
        usage();
    }
    if args[1] == "gen-run" {
        // Debug helper: vcheck gen-run <PROP:sub> <choice-bytes file>
        install_panic_hook();
        let name = args.get(2).cloned().unwrap_or_else(|| usage());
        let target = gen::target(&name).expect("known target");
        let data = match args.get(3) {
            Some(p) if p.starts_with('@') => target.record(p[1..].parse().expect("seed")).expect("recordable"),
            Some(p) => std::fs::read(p).expect("readable"),
            None => Vec::new(),
        };
        let mut tally = Tally::default();
        eprintln!("input: {} bytes; bridge self-test over 50 seeds: {:?}", data.len(), (0..50).map(|i| target.roundtrip(i)).filter(|r| *r == Some(true)).count());
        let started = Instant::now();
        let r = target.run(&data, &mut tally);
        println!("{name}: {} bytes -> {:?} in {:?}; labels {:?}", data.len(), r.map_err(|f| f.signature), started.elapsed(), tally.labels);
        std::process::exit(0);
    }
    if args[1] == "gen-campaign" {
        // Debug helper: vcheck gen-campaign <PROP:sub> <runs per job>
        install_panic_hook();
        let name = args.get(2).cloned().unwrap_or_else(|| usage());
        let runs: u64 = args.get(3).and_then(|r| r.parse().ok()).unwrap_or(20_000);
        let ctx = Ctx { prop: name.split(':').next().unwrap_or("").to_string(), tier: Tier::Thorough, seed: 1, shards: 16, known: load_known_findings(), scale: 1.0 };
        let started = Instant::now();
        let res = gen::campaign(&ctx, &name, runs);
        println!("{name}: {:?} evaluations {} labels {:?} sums {:?} violations {:?} inconclusive {:?}", started.elapsed(), res.tally.evaluations, res.tally.labels, res.tally.sums, res.violations.iter().map(|v| (&v.signature, &v.replay_path)).collect::<Vec<_>>(), res.inconclusive);
        std::process::exit(0);
    }
    let prop = args[1].clone();
    let mut tier = match std::env::var("VERIF_TIER").as_deref() {
        Ok("thorough") => Tier::Thorough,
        _ => Tier::Quick,
    };
    let mut replay: Option<String> = None;
    let mut record_abort: Option<String> = None;
    let mut i = 2;
    while i < args.len() {
        match args[i].as_str() {
            "--tier" => {
                i += 1;
                tier = match args.get(i).map(|s| s.as_str()) {
                    Some("quick") => Tier::Quick,
                    Some("thorough") => Tier::Thorough,
                    _ => usage(),
                };
            }
            "--replay" => {
                i += 1;
                replay = Some(args.get(i).cloned().unwrap_or_else(|| usage()));
            }
            "--record-abort" => {
                // Called by `check` after it attributed a death of the check process to one input:
                // writes the evidence file and prints the verdict lines.
                i += 1;
                record_abort = Some(args.get(i).cloned().unwrap_or_else(|| usage()));
            }
            _ => usage(),
        }
        i += 1;
    }
    let seed: u64 = std::env::var("VERIF_SEED")
        .ok()
        .and_then(|s| s.trim().parse::<i128>().ok())
        .map(|v| v as u64)
        .unwrap_or(1);
    let shards: usize = std::env::var("VERIF_SHARDS")
        .ok()
        .and_then(|s| s.parse().ok())
        .unwrap_or_else(|| std::thread::available_parallelism().map(|n| n.get()).unwrap_or(8).min(16));
    let scale: f64 = std::env::var("VERIF_SCALE").ok().and_then(|s| s.parse().ok()).unwrap_or(1.0);
    let ctx = Ctx {
        prop: prop.clone(),
        tier,
        seed,
        shards,
        known: load_known_findings(),
        scale,
    };
    install_panic_hook();
    let started = Instant::now();

    if let Some(path) = record_abort {
        let mut report = Report::new("attribution of a death of the check process: every case that was being evaluated when the process died is replayed alone in a fresh process; cases = those replays; non-trivial = the replay kills the process again");
        let mut sub = SubResult { sub: "process-abort".into(), ..Default::default() };
        sub.tally.evaluations = 1;
        sub.tally.nontrivial(1);
        sub.violations.push(Violation {
            signature: format!("{}/process-abort", ctx.prop),
            message: "the check process was killed while evaluating this input, and replaying it alone in a fresh process kills that process again (abort or signal, not a panic)".into(),
            replay_path: path,
        });
        report.push(sub);
        let code = finish(&ctx, report, started);
        std::process::exit(code);
    }

    if let Some(path) = replay {
        let raw = std::fs::read(&path).unwrap_or_else(|e| {
            eprintln!("cannot read {path}: {e}");
            std::process::exit(2);
        });
        let as_json = std::str::from_utf8(&raw).ok().and_then(|t| serde_json::from_str::<serde_json::Value>(t).ok());
        if as_json.is_none() {
            match fuzzers::replay_raw(std::path::Path::new(&path)) {
                Some(Ok(())) => {
                    println!("replay passed: property={} file={}", ctx.prop, path);
                    std::process::exit(0);
                }
                Some(Err(f)) => {
                    println!("violation detail: {} :: {}", f.signature, f.message);
                    println!("VIOLATION property={} replay={}", ctx.prop, path);
                    std::process::exit(1);
                }
                None => {
                    eprintln!("{path} is neither a JSON replay nor a fuzz artifact named fuzz-<target>-<hash>");
                    std::process::exit(2);
                }
            }
        }
        let text = String::from_utf8(raw).unwrap();
        // Raw libFuzzer artifacts / corpus files (name `fuzz-<target>-<hash>`) are replayed in-process.
        if serde_json::from_str::<serde_json::Value>(&text).is_err() {
            unreachable!();
        }
        let doc: serde_json::Value = serde_json::from_str(&text).unwrap();
        let sub = doc.get("sub").and_then(|v| v.as_str()).unwrap_or("").to_string();
        let case = doc.get("case").cloned().unwrap_or(serde_json::Value::Null);
        let res = dispatch_replay(&ctx, &sub, &case);
        let mut code = 0;
        for v in &res.violations {
            println!("violation detail: {} :: {}", v.signature, v.message);
            println!("VIOLATION property={} replay={}", ctx.prop, path);
            code = 1;
        }
        for (sig, n) in &res.tally.excluded_known {
            if let Some(k) = ctx.known_signature(sig) {
                println!("KNOWN-FINDING: property={} {} [{}; {} occurrences]", ctx.prop, k.what, k.id, n);
            }
        }
        if code == 0 && !res.inconclusive.is_empty() {
            for i in &res.inconclusive {
                println!("INCONCLUSIVE property={} {}", ctx.prop, i);
            }
            code = 2;
        }
        if code == 0 {
            println!("replay passed: property={} file={}", ctx.prop, path);
        }
        std::process::exit(code);
    }

    // Watchdog: a hang is inconclusive (exit 2), never a violation.
    let budget_s: u64 = std::env::var("VERIF_WATCHDOG_S").ok().and_then(|s| s.parse().ok()).unwrap_or(tier.pick(2400, 6 * 3600));
    let prop_for_watchdog = prop.clone();
    std::thread::spawn(move || {
        std::thread::sleep(std::time::Duration::from_secs(budget_s));
        println!("INCONCLUSIVE property={prop_for_watchdog} watchdog fired after {budget_s} s");
        std::process::exit(2);
    });
    let Some(mut report) = props::run_property(&ctx) else {
        eprintln!("unknown property {prop}");
        std::process::exit(2);
    };
    // Replay tier: saved inputs of every finding recorded for this property (fixed ones must
    // pass; known ones print their KNOWN-FINDING line).
    report.subs.insert(0, regression_replays(&ctx));
    let code = finish(&ctx, report, started);
    std::process::exit(code);
}

fn dispatch_replay(ctx: &Ctx, sub: &str, case: &serde_json::Value) -> SubResult {
    props::replay_property(ctx, sub, case)
}

fn regression_replays(ctx: &Ctx) -> SubResult {
    let mut out = SubResult { sub: "regression-replays".into(), ..Default::default() };
    let dir = format!("{}/regressions", verif_dir());
    let Ok(rd) = std::fs::read_dir(&dir) else { return out };
    let mut files: Vec<_> = rd.filter_map(|e| e.ok()).map(|e| e.path()).filter(|p| p.extension().map(|x| x == "json").unwrap_or(false)).collect();
    files.sort();
    for path in files {
        let Ok(text) = std::fs::read_to_string(&path) else { continue };
        let Ok(doc) = serde_json::from_str::<serde_json::Value>(&text) else { continue };
        if doc.get("property").and_then(|v| v.as_str()) != Some(ctx.prop.as_str()) {
            continue;
        }
        let sub = doc.get("sub").and_then(|v| v.as_str()).unwrap_or("").to_string();
        let case = doc.get("case").cloned().unwrap_or(serde_json::Value::Null);
        let mut res = props::replay_property(ctx, &sub, &case);
        for v in res.violations.iter_mut() {
            v.replay_path = path.display().to_string();
        }
        out.tally.merge(std::mem::take(&mut res.tally));
        out.tally.label("regression_file");
        out.violations.extend(res.violations);
        out.inconclusive.extend(res.inconclusive);
    }
    out
}
