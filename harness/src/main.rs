mod common;
mod kv;
mod listen;
mod util;
mod wire;

use std::time::Instant;

use common::*;

fn usage() -> ! {
    eprintln!("usage: vcheck <PROPERTY> [--tier quick|thorough] [--replay FILE]");
    std::process::exit(2);
}

fn main() {
    let args: Vec<String> = std::env::args().collect();
    if args.len() < 2 {
        usage();
    }
    let prop = args[1].clone();
    let mut tier = match std::env::var("VERIF_TIER").as_deref() {
        Ok("thorough") => Tier::Thorough,
        _ => Tier::Quick,
    };
    let mut replay: Option<String> = None;
    let mut i = 2;
    while i < args.len() {
        match args[i].as_str() {
            "--tier" => {
                i += 1;
                tier = match args.get(i).map(|s| s.as_str()) {
                    Some("quick") => Tier::Quick,
                    Some("thorough") => Tier::Thorough,
                    _ => usage(),
                };
            }
            "--replay" => {
                i += 1;
                replay = Some(args.get(i).cloned().unwrap_or_else(|| usage()));
            }
            _ => usage(),
        }
        i += 1;
    }
    let seed: u64 = std::env::var("VERIF_SEED")
        .ok()
        .and_then(|s| s.trim().parse::<i128>().ok())
        .map(|v| v as u64)
        .unwrap_or(1);
    let shards: usize = std::env::var("VERIF_SHARDS")
        .ok()
        .and_then(|s| s.parse().ok())
        .unwrap_or_else(|| std::thread::available_parallelism().map(|n| n.get()).unwrap_or(8).min(16));
    let scale: f64 = std::env::var("VERIF_SCALE").ok().and_then(|s| s.parse().ok()).unwrap_or(1.0);
    let ctx = Ctx {
        prop: prop.clone(),
        tier,
        seed,
        shards,
        known: load_known_findings(),
        scale,
    };
    install_panic_hook();
    let started = Instant::now();

    if let Some(path) = replay {
        let text = std::fs::read_to_string(&path).unwrap_or_else(|e| {
            eprintln!("cannot read {path}: {e}");
            std::process::exit(2);
        });
        let doc: serde_json::Value = serde_json::from_str(&text).unwrap_or_else(|e| {
            eprintln!("cannot parse {path}: {e}");
            std::process::exit(2);
        });
        let sub = doc.get("sub").and_then(|v| v.as_str()).unwrap_or("").to_string();
        let case = doc.get("case").cloned().unwrap_or(serde_json::Value::Null);
        let res = dispatch_replay(&ctx, &sub, &case);
        let mut code = 0;
        for v in &res.violations {
            println!("violation detail: {} :: {}", v.signature, v.message);
            println!("VIOLATION property={} replay={}", ctx.prop, path);
            code = 1;
        }
        for (sig, n) in &res.tally.excluded_known {
            if let Some(k) = ctx.known_signature(sig) {
                println!("KNOWN-FINDING: property={} {} [{}; {} occurrences]", ctx.prop, k.what, k.id, n);
            }
        }
        if code == 0 && !res.inconclusive.is_empty() {
            for i in &res.inconclusive {
                println!("INCONCLUSIVE property={} {}", ctx.prop, i);
            }
            code = 2;
        }
        if code == 0 {
            println!("replay passed: property={} file={}", ctx.prop, path);
        }
        std::process::exit(code);
    }

    let report = match prop.as_str() {
        "C06" => {
            let mut r = Report::new(
                "cases = operation sequences on one node's own namespace (exhaustive up to the stated length over a 16-op alphabet, then random to length 40, then a two-node replica variant); \
                 non-trivial = the sequence contains a GC pass that collected something while a younger marked entry survived, or a set/delete of an already marked key, or (replica) a reset or replica-side collection; distinct = by op sequence",
            );
            r.assume("keys/values from small alphabets incl. empty and multi-byte; grace period 10 s; virtual clock");
            r.assume("whether deleting an already deleted key, or delete-after-ttl on an already marked key, allocates a version is left open by the statement: both accepted");
            kv::run(&ctx, &mut r, "C06");
            r
        }
        "C15" => {
            let mut r = Report::new(
                "cases = (subscription set, event history) on an owner and a replica: every key of length <= 3 over {a,b,é,😀} set locally then gossiped, under pseudo-random subscription sets, plus random histories (set/ttl/delete/gossip/stale redelivery/owner GC/drop/late subscribe); \
                 non-trivial = a written key starts with a multi-byte character, or >= 2 active matching subscriptions of different prefix lengths, or a handle was dropped mid-history; distinct = by case",
            );
            r.assume("a set to the same value with a different status (plain vs TTL) may or may not notify; re-delivery of identical entries after a reset may or may not notify");
            listen::run(&ctx, &mut r);
            r
        }
        _ => {
            eprintln!("unknown property {prop}");
            std::process::exit(2);
        }
    };
    let code = finish(&ctx, report, started);
    std::process::exit(code);
}

fn dispatch_replay(ctx: &Ctx, sub: &str, case: &serde_json::Value) -> SubResult {
    match ctx.prop.as_str() {
        "C06" => kv::replay(ctx, sub, case, "C06"),
        "C15" => listen::replay(ctx, sub, case),
        _ => {
            let mut r = SubResult::default();
            r.inconclusive.push(format!("no replay handler for {}", ctx.prop));
            r
        }
    }
}
