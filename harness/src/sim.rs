//! Engine E1: cluster simulator over real `Chitchat` nodes, byte-carrying virtual network,
//! paused clock, owner ledger and per-step monitors (C01 C02 C03 C04a C05 C12 C13 C16 C20a).

use std::collections::{BTreeMap, BTreeSet, HashSet};
use std::sync::atomic::Ordering;
use std::time::Duration;

use chitchat::{Chitchat, ChitchatId, NodeState};
use proptest::prelude::*;
use serde::{Deserialize, Serialize};
use serde_json::json;

use crate::common::*;
use crate::util::*;
use crate::wire::*;

pub const KEYS: [&str; 7] = ["", "a", "ab", "abc", "b", "k", "é"];
pub const MAX_SLOTS: usize = 5;

#[derive(Clone, Copy, Debug, PartialEq, Eq, Serialize, Deserialize)]
pub enum Monitor {
    C01,
    C02,
    C03,
    C04,
    C05,
    /// Tombstone GC on replicas inside cluster histories (late collection).
    C06,
    C12,
    C13,
    C16,
    C20,
}

impl Monitor {
    pub fn name(self) -> &'static str {
        match self {
            Monitor::C01 => "C01",
            Monitor::C02 => "C02",
            Monitor::C03 => "C03",
            Monitor::C04 => "C04",
            Monitor::C05 => "C05",
            Monitor::C06 => "C06",
            Monitor::C12 => "C12",
            Monitor::C13 => "C13",
            Monitor::C16 => "C16",
            Monitor::C20 => "C20",
        }
    }
}

#[derive(Clone, Copy, Debug, PartialEq, Eq, Serialize, Deserialize)]
pub enum WKind {
    Set,
    SetTtl,
    Delete,
    DeleteTtl,
}

#[derive(Clone, Copy, Debug, PartialEq, Eq, Serialize, Deserialize)]
pub enum Adv {
    Ms(u32),
    Secs(u32),
    /// kv grace + delta ns (delta in -1, 0, +1e9)
    KvGrace(i8),
    /// dead grace / 2 + delta ms
    HalfDeadGrace(i8),
    /// dead grace + delta ms
    DeadGrace(i8),
    /// phi * max_interval + delta ms
    PhiDeadline(i8),
}

#[derive(Clone, Copy, Debug, PartialEq, Eq, Serialize, Deserialize)]
pub enum Op {
    Write { node: u16, kind: WKind, key: u8, val: Val },
    Advance(Adv),
    Heartbeat(u16),
    GcKeys(u16),
    Liveness(u16),
    Syn { a: u16, b: u16 },
    Deliver(u16),
    Drop(u16),
    Duplicate(u16),
    Cut { a: u16, b: u16 },
    Heal { a: u16, b: u16 },
    Join(u16),
    Crash(u16),
    Restart(u16),
    /// Heartbeat, GcKeys, Syn to every started peer (by mask), Liveness.
    Round { node: u16, mask: u8 },
    /// Syn, Deliver, Deliver, Deliver without interference.
    Handshake { a: u16, b: u16 },
    /// `a` sends a SYN to `b` and `b` processes it at once; the SYN-ACK stays in flight.
    SynHold { a: u16, b: u16 },
    /// External catch-up: `node` fetches `peer`'s copy of `member` (entries incl. tombstones, max
    /// version, watermark) and feeds it to `reset_node_state_if_update`, as an application would.
    CatchUp { node: u16, peer: u16, member: u16 },
    /// Same, but the state travels as an application would ship it: `state_snapshot()` of the peer
    /// serialized to JSON and deserialized (statuses survive, deletion instants restart).
    CatchUpSerde { node: u16, peer: u16, member: u16 },
}

#[derive(Clone, Debug, PartialEq, Serialize, Deserialize)]
pub struct SimCfg {
    pub slots: u8,
    /// Number of slots running at time 0 (the rest may join).
    pub initial: u8,
    pub kv_grace_ms: u64,
    pub fd: FdCfg,
    pub callback: bool,
    pub predicate: u8,
    /// Cluster of each slot (C16); all zero otherwise.
    pub cluster_of: [u8; MAX_SLOTS],
    pub cluster_ids: [String; 2],
    /// The nodes' configuration lists a (never answering) seed.
    #[serde(default)]
    pub seeded: bool,
    /// The harness keeps no receiver of the live-members watch channel between evaluations: it
    /// fetches a new one after each evaluation (an application that subscribes late).
    #[serde(default)]
    pub no_persistent_watcher: bool,
    pub shuffle_seed: u64,
}

#[derive(Clone, Debug, PartialEq, Serialize, Deserialize)]
pub struct FairCfg {
    /// Deliver (true) or discard (false) in-flight datagrams first.
    pub flush: bool,
    /// Extra edges bitmask over the 10 unordered pairs on top of a spanning path.
    pub extra_edges: u16,
    pub complete: bool,
    pub order_seed: u64,
    pub gc_in_rounds: bool,
}

#[derive(Clone, Debug, Serialize, Deserialize)]
pub struct SimCase {
    pub cfg: SimCfg,
    pub ops: Vec<Op>,
    pub fair: Option<FairCfg>,
}

// ------------------------------------------------------------------------------------------
// World

#[derive(Clone, Debug)]
struct LedgerWrite {
    key: String,
    value: String,
    status: u8,
}

#[derive(Default, Clone, Debug)]
struct Ledger {
    by_version: BTreeMap<u64, LedgerWrite>,
    latest_by_key: BTreeMap<String, u64>,
    max_version: u64,
    heartbeat: u64,
    cluster: u8,
}

struct SimNode {
    id: ChitchatId,
    wid: WId,
    chitchat: Chitchat,
    calls: std::sync::Arc<std::sync::atomic::AtomicUsize>,
    watcher: Option<tokio::sync::watch::Receiver<BTreeMap<ChitchatId, NodeState>>>,
    _seed_tx: tokio::sync::watch::Sender<HashSet<std::net::SocketAddr>>,
    /// (live set with max versions) observed at the previous evaluation (C13)
    prev_eval: Option<BTreeMap<ChitchatId, u64>>,
}

#[derive(Clone, Debug)]
struct Datagram {
    src: usize,
    dst: usize,
    bytes: Vec<u8>,
    model: WMsg,
    seq: u64,
    /// KF-1 tainted entries carried: (member, key, version)
    taint: Vec<(WId, String, u64)>,
    deliveries: u32,
}

#[derive(Default)]
struct CaseFlags {
    reset: bool,
    truncated: bool,
    midreset_copy: bool,
    rejected_delta: bool,
    dup_delivery: bool,
    reordered: bool,
    gc_collected: bool,
    third_party_learned: bool,
    late_join: bool,
    relayed_about_self: bool,
    scheduled_for_deletion: bool,
    member_removed: bool,
    member_recreated: bool,
    removed_then_mentioned: bool,
    passed_delete_then_delivery: bool,
    healed_divergent: bool,
    cross_cluster_syn: bool,
    predicate_or_live_changed: bool,
    reset_messages: u32,
    multi_reset_message: bool,
    narrow_no_reset: bool,
    catch_up: bool,
}

pub struct World<'a> {
    cfg: &'a SimCfg,
    mon: Monitor,
    nodes: Vec<Option<SimNode>>,
    generation: [u64; MAX_SLOTS],
    ever_started: [bool; MAX_SLOTS],
    ledgers: BTreeMap<ChitchatId, Ledger>,
    inflight: Vec<Datagram>,
    links: [[bool; MAX_SLOTS]; MAX_SLOTS],
    now_ns: u128,
    seq: u64,
    max_delivered_seq: u64,
    shuffle_counter: u64,
    // monitors' memory
    frontiers: BTreeMap<(usize, ChitchatId), (u64, u64)>,
    key_versions: BTreeMap<(usize, ChitchatId), BTreeMap<String, (u64, u64)>>,
    taints: BTreeSet<(usize, WId, String, u64)>,
    /// (slot, member) -> time (ns) at which the member entered the dead set, as observed
    dead_since: BTreeMap<(usize, ChitchatId), u128>,
    /// (slot, member) -> heartbeat held when the member's state was removed
    removed_hb: BTreeMap<(usize, ChitchatId), u64>,
    /// (slot, member) -> number of strictly increasing heartbeats seen since (re)creation
    fresh_since_creation: BTreeMap<(usize, ChitchatId), (u64, u32)>,
    /// Per (observer, member): time of the last fresh heartbeat observation, sequence number of
    /// the latest pair of fresh observations at most max_interval apart, sequence number of the
    /// last evaluation that classified the member dead.
    fresh_timing: BTreeMap<(usize, ChitchatId), (Option<u128>, Option<u64>, Option<u64>)>,
    ev_seq: u64,
    /// Per (observer, member): smallest accepted gap (<= max_interval) between consecutive fresh
    /// heartbeat observations since the member's sampling window was last emptied.
    min_gap: BTreeMap<(usize, ChitchatId), u128>,
    /// Per (observer, member): highest heartbeat value a processed digest has carried for it.
    max_hb_received: BTreeMap<(usize, ChitchatId), u64>,
    /// copies that passed a delete (C02 non-triviality)
    passed_delete: BTreeSet<(usize, ChitchatId)>,
    /// (slot, member, key, version) -> virtual time at which this node first held that marked
    /// (deleted / TTL) entry (C06: grace period counted from receipt)
    marked_since: BTreeMap<(usize, ChitchatId, String, u64), u128>,
    catch_up_via_serde: bool,
    flags: CaseFlags,
    excluded_known: u64,
    steps: u64,
    handshakes: u64,
    messages: u64,
}

type R<T> = Result<T, Failure>;

fn fail(mon: Monitor, what: &str, msg: String) -> Failure {
    Failure::new(format!("{}/{}", mon.name(), what), msg)
}

/// Outcome of a step that could not be evaluated for this property (e.g. a panic that is another
/// property's business): the case is discarded.
pub struct Discard(pub String);

pub enum StepErr {
    Violation(Failure),
    Discard(String),
}

impl From<Failure> for StepErr {
    fn from(f: Failure) -> Self {
        StepErr::Violation(f)
    }
}

type S<T> = Result<T, StepErr>;

impl<'a> World<'a> {
    pub fn new(cfg: &'a SimCfg, mon: Monitor) -> World<'a> {
        let mut w = World {
            cfg,
            mon,
            nodes: (0..MAX_SLOTS).map(|_| None).collect(),
            generation: [0; MAX_SLOTS],
            ever_started: [false; MAX_SLOTS],
            ledgers: BTreeMap::new(),
            inflight: Vec::new(),
            links: [[true; MAX_SLOTS]; MAX_SLOTS],
            now_ns: 0,
            seq: 0,
            max_delivered_seq: 0,
            shuffle_counter: 0,
            frontiers: BTreeMap::new(),
            key_versions: BTreeMap::new(),
            taints: BTreeSet::new(),
            dead_since: BTreeMap::new(),
            removed_hb: BTreeMap::new(),
            fresh_since_creation: BTreeMap::new(),
            fresh_timing: BTreeMap::new(),
            ev_seq: 0,
            min_gap: BTreeMap::new(),
            max_hb_received: BTreeMap::new(),
            passed_delete: BTreeSet::new(),
            marked_since: BTreeMap::new(),
            catch_up_via_serde: false,
            flags: CaseFlags::default(),
            excluded_known: 0,
            steps: 0,
            handshakes: 0,
            messages: 0,
        };
        for slot in 0..(cfg.initial as usize).min(cfg.slots as usize) {
            w.start(slot);
        }
        w
    }

    fn slots(&self) -> usize {
        (self.cfg.slots as usize).clamp(1, MAX_SLOTS)
    }

    fn start(&mut self, slot: usize) {
        // Slots 3 and 4 advertise IPv6 addresses in forms that must survive the wire unchanged
        // (IPv4-mapped, loopback).
        let mut wid = WId::v4(&format!("n{slot}"), self.generation[slot], 7000 + slot as u16);
        if slot == 3 {
            wid.ip = WIp::V6([0, 0, 0, 0, 0, 0, 0, 0, 0, 0, 0xff, 0xff, 127, 0, 0, 1]);
        } else if slot == 4 {
            wid.ip = WIp::V6([0, 0, 0, 0, 0, 0, 0, 0, 0, 0, 0, 0, 0, 0, 0, 1]);
        }
        let id = wid.to_real();
        let cluster = self.cfg.cluster_of[slot] as usize % 2;
        let b = build_node_seeded(
            &id,
            &self.cfg.cluster_ids[cluster],
            Duration::from_millis(self.cfg.kv_grace_ms),
            &self.cfg.fd,
            self.cfg.callback,
            self.cfg.predicate,
            self.cfg.seeded,
        );
        let watcher = if self.cfg.no_persistent_watcher { None } else { Some(b.chitchat.live_nodes_watcher()) };
        let hb = b.chitchat.node_state(&id).map(|ns| u64::from(ns.heartbeat())).unwrap_or(0);
        self.ledgers.insert(id.clone(), Ledger { heartbeat: hb, cluster: cluster as u8, ..Default::default() });
        self.nodes[slot] = Some(SimNode {
            wid: WId::from_real(&id),
            id,
            chitchat: b.chitchat,
            calls: b.catchup_calls,
            watcher,
            _seed_tx: b._seed_tx,
            prev_eval: None,
        });
        self.ever_started[slot] = true;
    }

    fn running(&self) -> Vec<usize> {
        (0..self.slots()).filter(|s| self.nodes[*s].is_some()).collect()
    }

    fn pick_running(&self, sel: u16) -> Option<usize> {
        let r = self.running();
        if r.is_empty() {
            None
        } else {
            Some(r[pick_idx(sel, r.len())])
        }
    }

    fn next_shuffle_seed(&mut self) -> u64 {
        self.shuffle_counter += 1;
        splitmix64(self.cfg.shuffle_seed ^ self.shuffle_counter)
    }

    fn refresh_owner_heartbeat(&mut self, slot: usize) {
        if let Some(n) = self.nodes[slot].as_ref() {
            if let Some(ns) = n.chitchat.node_state(&n.id) {
                let hb = u64::from(ns.heartbeat());
                if let Some(l) = self.ledgers.get_mut(&n.id) {
                    l.heartbeat = hb;
                }
            }
        }
    }

    // -------------------------------------------------------------------------------------
    // Steps

    pub async fn apply(&mut self, op: &Op) -> S<()> {
        self.steps += 1;
        match *op {
            Op::Write { node, kind, key, val } => {
                if let Some(slot) = self.pick_running(node) {
                    self.write(slot, kind, KEYS[key as usize % KEYS.len()], &val.expand())?;
                }
            }
            Op::Advance(adv) => {
                let ns = self.advance_amount(adv);
                advance_ns(ns).await;
                self.now_ns += ns as u128;
            }
            Op::Heartbeat(node) => {
                if let Some(slot) = self.pick_running(node) {
                    self.heartbeat(slot)?;
                }
            }
            Op::GcKeys(node) => {
                if let Some(slot) = self.pick_running(node) {
                    self.gc_keys(slot)?;
                }
            }
            Op::Liveness(node) => {
                if let Some(slot) = self.pick_running(node) {
                    self.liveness(slot)?;
                }
            }
            Op::Syn { a, b } => {
                if let (Some(a), Some(b)) = (self.pick_running(a), self.pick_slot(b)) {
                    if a != b {
                        self.syn(a, b)?;
                    }
                }
            }
            Op::Deliver(i) => {
                if !self.inflight.is_empty() {
                    let idx = pick_idx(i, self.inflight.len());
                    let dg = self.inflight.remove(idx);
                    self.deliver(dg)?;
                }
            }
            Op::Drop(i) => {
                if !self.inflight.is_empty() {
                    let idx = pick_idx(i, self.inflight.len());
                    self.inflight.remove(idx);
                }
            }
            Op::Duplicate(i) => {
                if !self.inflight.is_empty() {
                    let idx = pick_idx(i, self.inflight.len());
                    self.inflight[idx].deliveries += 1;
                    let dg = self.inflight[idx].clone();
                    self.deliver(dg)?;
                }
            }
            Op::Cut { a, b } => {
                let (a, b) = (pick_idx(a, self.slots()), pick_idx(b, self.slots()));
                self.links[a][b] = false;
                self.links[b][a] = false;
            }
            Op::Heal { a, b } => {
                let (a, b) = (pick_idx(a, self.slots()), pick_idx(b, self.slots()));
                if a != b && !self.links[a][b] {
                    self.links[a][b] = true;
                    self.links[b][a] = true;
                    if self.divergent(a, b) {
                        self.flags.healed_divergent = true;
                    }
                }
            }
            Op::Join(s) => {
                let candidates: Vec<usize> = (0..self.slots()).filter(|s| !self.ever_started[*s]).collect();
                if !candidates.is_empty() {
                    let slot = candidates[pick_idx(s, candidates.len())];
                    self.start(slot);
                    self.flags.late_join = true;
                }
            }
            Op::Crash(s) => {
                if self.running().len() > 1 {
                    if let Some(slot) = self.pick_running(s) {
                        self.refresh_owner_heartbeat(slot);
                        self.nodes[slot] = None;
                        self.forget_slot(slot);
                    }
                }
            }
            Op::Restart(s) => {
                let candidates: Vec<usize> = (0..self.slots()).filter(|s| self.ever_started[*s] && self.nodes[*s].is_none()).collect();
                if !candidates.is_empty() {
                    let slot = candidates[pick_idx(s, candidates.len())];
                    self.generation[slot] += 1;
                    self.start(slot);
                }
            }
            Op::Round { node, mask } => {
                if let Some(slot) = self.pick_running(node) {
                    self.heartbeat(slot)?;
                    self.gc_keys(slot)?;
                    for peer in 0..self.slots() {
                        if peer != slot && (mask >> peer) & 1 == 1 && self.ever_started[peer] {
                            self.syn(slot, peer)?;
                        }
                    }
                    self.liveness(slot)?;
                }
            }
            Op::Handshake { a, b } => {
                if let (Some(a), Some(b)) = (self.pick_running(a), self.pick_running(b)) {
                    if a != b {
                        self.handshake(a, b)?;
                    }
                }
            }
            Op::SynHold { a, b } => {
                if let (Some(a), Some(b)) = (self.pick_running(a), self.pick_running(b)) {
                    if a != b && self.links[a][b] {
                        let mark = self.seq;
                        self.syn(a, b)?;
                        if let Some(pos) = self.inflight.iter().position(|d| d.seq > mark && d.seq == self.seq) {
                            let dg = self.inflight.remove(pos);
                            self.deliver(dg)?;
                        }
                    }
                }
            }
            Op::CatchUp { node, peer, member } | Op::CatchUpSerde { node, peer, member } => {
                self.catch_up_via_serde = matches!(op, Op::CatchUpSerde { .. });
                if let (Some(n), Some(p)) = (self.pick_running(node), self.pick_running(peer)) {
                    // An application only fetches states from nodes of its own cluster.
                    if n != p && self.cfg.cluster_of[n] % 2 == self.cfg.cluster_of[p] % 2 {
                        self.catch_up(n, p, member)?;
                    }
                }
            }
        }
        Ok(())
    }

    fn catch_up(&mut self, n: usize, p: usize, member_sel: u16) -> S<()> {
        let mon = self.mon;
        let peer = self.nodes[p].as_ref().unwrap();
        let members: Vec<ChitchatId> = peer.chitchat.node_states().keys().cloned().collect();
        if members.is_empty() {
            return Ok(());
        }
        let member = members[pick_idx(member_sel, members.len())].clone();
        let Some(src) = peer.chitchat.node_state(&member) else { return Ok(()) };
        let (kvs, max, gc): (Vec<(String, chitchat::VersionedValue)>, u64, u64) = if self.catch_up_via_serde {
            // peer snapshot -> JSON -> snapshot
            let snapshot = peer.chitchat.state_snapshot();
            let json = match serde_json::to_string(&snapshot) {
                Ok(j) => j,
                Err(e) => return Err(StepErr::Discard(format!("snapshot does not serialize: {e}"))),
            };
            let back: chitchat::ClusterStateSnapshot = match serde_json::from_str(&json) {
                Ok(b) => b,
                Err(e) => return Err(StepErr::Discard(format!("snapshot does not deserialize: {e}"))),
            };
            let Some(ns) = back.node_states.iter().find(|ns| *ns.chitchat_id() == member) else { return Ok(()) };
            (ns.key_values_including_deleted().map(|(k, vv)| (k.to_string(), vv.clone())).collect(), ns.max_version(), ns.last_gc_version())
        } else {
            (src.key_values_including_deleted().map(|(k, vv)| (k.to_string(), vv.clone())).collect(), src.max_version(), src.last_gc_version())
        };
        let wid = WId::from_real(&member);
        let peer_taints: Vec<(String, u64)> = self.taints.iter().filter(|(s, w, _, _)| *s == p && *w == wid).map(|(_, _, k, v)| (k.clone(), *v)).collect();
        let node = self.nodes[n].as_mut().unwrap();
        let is_self = node.id == member;
        let pre_self = if is_self { node.chitchat.node_state(&member).map(copy_view) } else { None };
        let pre_known = node.chitchat.node_state(&member).is_some();
        if let Err(pn) = guard(|| node.chitchat.reset_node_state_if_update(&member, kvs.into_iter(), max, gc)) {
            // "never panics" is C18's statement; in the other checks the case cannot be evaluated.
            return Err(StepErr::Discard(format!("catch-up panicked: {}", pn.signature())));
        }
        self.flags.catch_up = true;
        let node = self.nodes[n].as_ref().unwrap();
        if is_self && mon == Monitor::C05 {
            let post = node.chitchat.node_state(&member).map(copy_view);
            if let (Some(a), Some(b)) = (&pre_self, &post) {
                if a.entries != b.entries || a.gc != b.gc || a.max != b.max {
                    return Err(fail(mon, "own-namespace-changed-by-catch-up", format!("a catch-up fed with peer n{p}'s honest copy of n{n}'s own namespace changed it: ({},{}) {} entries -> ({},{}) {} entries", a.gc, a.max, a.entries.len(), b.gc, b.max, b.entries.len())).into());
                }
            }
        }
        if !pre_known && node.chitchat.node_state(&member).is_some() {
            self.fresh_since_creation.insert((n, member.clone()), (0, 0));
            self.fresh_timing.remove(&(n, member.clone()));
            self.min_gap.remove(&(n, member.clone()));
            if self.removed_hb.contains_key(&(n, member.clone())) && mon == Monitor::C12 {
                return Err(fail(mon, "revived-by-catch-up", format!("n{n} recreated removed member {:?} through the catch-up entry point", member)).into());
            }
        }
        // KF-1 provenance: entries copied verbatim from a tainted entry of the peer stay tainted.
        if let Some(ns) = node.chitchat.node_state(&member) {
            for (k, v) in peer_taints {
                match ns.get_versioned(&k).map(|vv| vv.version) {
                    Some(w) if w == v => {
                        self.taints.insert((n, wid.clone(), k, v));
                    }
                    // The catch-up keeps the node's own, newer entry of a key only because the
                    // supplied state still lists that key - which it does solely through the
                    // KF-1 entry (an exact copy at that watermark has no such key any more, and
                    // the replacement would have removed it). Same root cause: the kept entry at
                    // or below the adopted watermark inherits the taint.
                    Some(w) if w > v && w <= ns.last_gc_version() => {
                        self.taints.insert((n, wid.clone(), k, w));
                    }
                    _ => {}
                }
            }
        }
        let stale: Vec<_> = self
            .taints
            .iter()
            .filter(|(s, w, key, version)| *s == n && *w == wid && node.chitchat.node_state(&member).and_then(|ns| ns.get_versioned(key)).map(|vv| vv.version != *version).unwrap_or(true))
            .cloned()
            .collect();
        for t in stale {
            self.taints.remove(&t);
        }
        self.check_copies(n, None)?;
        self.check_membership_basic(n)?;
        Ok(())
    }

    fn pick_slot(&self, sel: u16) -> Option<usize> {
        let started: Vec<usize> = (0..self.slots()).filter(|s| self.ever_started[*s]).collect();
        if started.is_empty() {
            None
        } else {
            Some(started[pick_idx(sel, started.len())])
        }
    }

    fn advance_amount(&self, adv: Adv) -> u64 {
        let fd = &self.cfg.fd;
        let ms = 1_000_000u64;
        let d = |base_ns: u64, delta_ns: i64| -> u64 { (base_ns as i64 + delta_ns).max(0) as u64 };
        match adv {
            Adv::Ms(m) => m as u64 * ms,
            Adv::Secs(s) => s as u64 * 1000 * ms,
            Adv::KvGrace(k) => d(self.cfg.kv_grace_ms * ms, match k.signum() { -1 => -1, 0 => 0, _ => 1_000_000_000 }),
            Adv::HalfDeadGrace(k) => d(fd.dead_grace_ms * ms / 2, k as i64 * 2 * ms as i64),
            Adv::DeadGrace(k) => d(fd.dead_grace_ms * ms, k as i64 * 2 * ms as i64),
            Adv::PhiDeadline(k) => d((fd.phi * fd.max_interval_ms.max(fd.initial_interval_ms) as f64 * ms as f64) as u64, k as i64 * 5 * ms as i64),
        }
    }

    fn divergent(&self, a: usize, b: usize) -> bool {
        let (Some(na), Some(nb)) = (self.nodes[a].as_ref(), self.nodes[b].as_ref()) else { return false };
        for (id, ns) in na.chitchat.node_states() {
            match nb.chitchat.node_state(id) {
                Some(other) if other.max_version() == ns.max_version() => {}
                _ => return true,
            }
        }
        false
    }

    fn forget_slot(&mut self, slot: usize) {
        self.frontiers.retain(|(s, _), _| *s != slot);
        self.key_versions.retain(|(s, _), _| *s != slot);
        self.taints.retain(|(s, _, _, _)| *s != slot);
        self.dead_since.retain(|(s, _), _| *s != slot);
        self.removed_hb.retain(|(s, _), _| *s != slot);
        self.fresh_since_creation.retain(|(s, _), _| *s != slot);
        self.fresh_timing.retain(|(s, _), _| *s != slot);
        self.min_gap.retain(|(s, _), _| *s != slot);
        self.max_hb_received.retain(|(s, _), _| *s != slot);
        self.passed_delete.retain(|(s, _)| *s != slot);
        self.marked_since.retain(|(s, _, _, _), _| *s != slot);
    }

    fn panic_policy(&self, p: PanicInfo, during: &str) -> StepErr {
        // A panic while an honest node processes honest traffic is C04's business.
        if self.mon == Monitor::C04 {
            StepErr::Violation(Failure::new(format!("C04/{}", p.signature()), format!("{during}: {}", p.describe())))
        } else {
            StepErr::Discard(format!("panic during {during}: {}", p.signature()))
        }
    }

    fn write(&mut self, slot: usize, kind: WKind, key: &str, value: &str) -> S<()> {
        let node = self.nodes[slot].as_mut().unwrap();
        let id = node.id.clone();
        let before = node.chitchat.self_node_state().max_version();
        let r = guard(|| {
            let ns = node.chitchat.self_node_state();
            match kind {
                WKind::Set => ns.set(key, value),
                WKind::SetTtl => ns.set_with_ttl(key, value),
                WKind::Delete => ns.delete(key),
                WKind::DeleteTtl => ns.delete_after_ttl(key),
            }
        });
        if let Err(p) = r {
            return Err(self.panic_policy(p, "local write"));
        }
        let node = self.nodes[slot].as_mut().unwrap();
        let ns = node.chitchat.self_node_state();
        let after = ns.max_version();
        if after != before {
            let Some(vv) = ns.get_versioned(key) else {
                return Err(StepErr::Discard("written key not readable".into()));
            };
            if vv.version != after {
                return Err(StepErr::Discard("write did not carry the new max version".into()));
            }
            let lw = LedgerWrite { key: key.to_string(), value: vv.value.clone(), status: status_code(&vv.status) };
            let l = self.ledgers.get_mut(&id).unwrap();
            l.by_version.insert(after, lw);
            l.latest_by_key.insert(key.to_string(), after);
            l.max_version = after;
        }
        self.after_local_change(slot)
    }

    fn heartbeat(&mut self, slot: usize) -> S<()> {
        let node = self.nodes[slot].as_mut().unwrap();
        if let Err(p) = guard(|| node.chitchat.verif_update_self_heartbeat()) {
            return Err(self.panic_policy(p, "heartbeat"));
        }
        self.refresh_owner_heartbeat(slot);
        Ok(())
    }

    fn gc_keys(&mut self, slot: usize) -> S<()> {
        let node = self.nodes[slot].as_mut().unwrap();
        let before: u64 = node.chitchat.node_states().values().map(|ns| ns.key_values_including_deleted().count() as u64).sum();
        if let Err(p) = guard(|| node.chitchat.verif_gc_keys_marked_for_deletion()) {
            return Err(self.panic_policy(p, "key GC"));
        }
        let node = self.nodes[slot].as_ref().unwrap();
        let after: u64 = node.chitchat.node_states().values().map(|ns| ns.key_values_including_deleted().count() as u64).sum();
        if after < before {
            self.flags.gc_collected = true;
        }
        if self.mon == Monitor::C06 {
            // Every marked entry this node has held for a full grace period must be gone now.
            let grace = self.cfg.kv_grace_ms as u128 * 1_000_000;
            let node = self.nodes[slot].as_ref().unwrap();
            for (id, ns) in node.chitchat.node_states() {
                for (k, vv) in ns.key_values_including_deleted() {
                    if status_code(&vv.status) == 0 {
                        continue;
                    }
                    if let Some(since) = self.marked_since.get(&(slot, id.clone(), k.to_string(), vv.version)) {
                        if self.now_ns >= since + grace {
                            return Err(fail(Monitor::C06, "marked-entry-survived-gc", format!("n{slot}'s copy of {:?} (watermark {}, max {}): key {k:?} (v{}, status {}) has been held for {} ms >= grace {} ms and survived a GC pass (its own deletion instant is {:?} old)", id, ns.last_gc_version(), ns.max_version(), vv.version, status_code(&vv.status), (self.now_ns - since) / 1_000_000, self.cfg.kv_grace_ms, vv.status.time_of_start_scheduled_for_deletion().map(|t| t.elapsed()))).into());
                        }
                    }
                }
            }
            let present: BTreeSet<(ChitchatId, String, u64)> = node.chitchat.node_states().iter().flat_map(|(id, ns)| ns.key_values_including_deleted().map(move |(k, vv)| (id.clone(), k.to_string(), vv.version))).collect();
            self.marked_since.retain(|(s, id, k, v), _| *s != slot || present.contains(&(id.clone(), k.clone(), *v)));
        }
        self.after_local_change(slot)
    }

    fn after_local_change(&mut self, slot: usize) -> S<()> {
        self.check_copies(slot, None)?;
        Ok(())
    }

    fn syn(&mut self, a: usize, b: usize) -> S<()> {
        let node = self.nodes[a].as_ref().unwrap();
        let msg = match guard(|| node.chitchat.verif_create_syn_message()) {
            Ok(m) => m,
            Err(p) => return Err(self.panic_policy(p, "create_syn_message")),
        };
        self.send(a, b, msg, Vec::new())
    }

    fn send(&mut self, src: usize, dst: usize, msg: chitchat::ChitchatMessage, taint: Vec<(WId, String, u64)>) -> S<()> {
        let bytes = match guard(|| real_encode(&msg)) {
            Ok(b) => b,
            Err(p) => return Err(StepErr::Discard(format!("serialization panicked: {}", p.signature()))),
        };
        let decoded = match decode_msg(&bytes) {
            Ok(d) => d,
            Err(e) => return Err(StepErr::Discard(format!("independent decoder rejects an emitted message: {e}"))),
        };
        self.messages += 1;
        if bytes.len() > 50_000 {
            // A reply this close to the datagram limit almost always omitted owed entries.
            self.flags.truncated = true;
        }
        self.monitor_outgoing(src, &decoded.msg)?;
        if !self.links[src][dst] {
            return Ok(());
        }
        self.seq += 1;
        self.inflight.push(Datagram { src, dst, bytes, model: decoded.msg, seq: self.seq, taint, deliveries: 0 });
        if self.inflight.len() > 64 {
            self.inflight.remove(0);
        }
        Ok(())
    }

    fn handshake(&mut self, a: usize, b: usize) -> S<()> {
        // Syn, then the three deliveries, each taking the datagram just produced.
        let mark = self.seq;
        let link = self.links[a][b];
        self.links[a][b] = true;
        self.links[b][a] = true;
        let r = (|| -> S<()> {
            self.syn(a, b)?;
            for _ in 0..3 {
                let Some(pos) = self.inflight.iter().position(|d| d.seq > mark && d.seq == self.seq) else { break };
                let dg = self.inflight.remove(pos);
                self.deliver(dg)?;
            }
            Ok(())
        })();
        self.links[a][b] = link;
        self.links[b][a] = link;
        self.handshakes += 1;
        r
    }

    fn deliver(&mut self, dg: Datagram) -> S<()> {
        let dst = dg.dst;
        if self.nodes[dst].is_none() {
            return Ok(());
        }
        if dg.deliveries > 0 {
            self.flags.dup_delivery = true;
        }
        if dg.seq < self.max_delivered_seq {
            self.flags.reordered = true;
        }
        self.max_delivered_seq = self.max_delivered_seq.max(dg.seq);
        let (msg, rest) = match guard(|| real_decode(&dg.bytes)) {
            Ok(Ok(r)) => r,
            Ok(Err(e)) => return Err(StepErr::Discard(format!("real decoder rejects an emitted message: {e}"))),
            Err(p) => return Err(StepErr::Discard(format!("real decoder panicked: {}", p.signature()))),
        };
        if rest != 0 {
            return Err(StepErr::Discard("trailing bytes".into()));
        }
        // Pre-state.
        let seed = self.next_shuffle_seed();
        let node = self.nodes[dst].as_mut().unwrap();
        let self_id = node.id.clone();
        let pre_copies: BTreeMap<ChitchatId, (u64, u64)> = node.chitchat.node_states().iter().map(|(id, ns)| (id.clone(), (ns.last_gc_version(), ns.max_version()))).collect();
        let pre_self = node.chitchat.node_state(&self_id).map(copy_view);
        let pre_calls = node.calls.load(Ordering::SeqCst);
        let pre_membership = if self.mon == Monitor::C16 { Some(membership_view(&node.chitchat)) } else { None };
        let pre_members: BTreeSet<ChitchatId> = pre_copies.keys().cloned().collect();
        let pre_hbs: BTreeMap<ChitchatId, u64> = node.chitchat.node_states().iter().map(|(id, ns)| (id.clone(), u64::from(ns.heartbeat()))).collect();
        chitchat::verif::verif_set_shuffle_seed(seed);
        let reply = match guard(|| node.chitchat.verif_process_message(msg)) {
            Ok(r) => r,
            Err(p) => return Err(self.panic_policy(p, "process_message")),
        };
        self.refresh_owner_heartbeat(dst);
        self.after_delivery(dst, &dg, &pre_copies, pre_self, pre_calls, pre_membership, &pre_members, &pre_hbs, reply.is_some())?;
        if let Some(reply) = reply {
            // Taint carried by the reply: tainted entries of the sender that the delta contains.
            let taint = self.reply_taint(dst, &reply);
            self.send(dst, dg.src, reply, taint)?;
        }
        Ok(())
    }

    fn reply_taint(&self, slot: usize, reply: &chitchat::ChitchatMessage) -> Vec<(WId, String, u64)> {
        if self.taints.is_empty() {
            return Vec::new();
        }
        let v = chitchat::verif::verif_describe(reply);
        let delta = match &v {
            chitchat::verif::VerifMessage::SynAck { delta, .. } | chitchat::verif::VerifMessage::Ack { delta } => delta,
            _ => return Vec::new(),
        };
        let mut out = Vec::new();
        for nd in &delta.node_deltas {
            let wid = WId::from_real(&nd.chitchat_id);
            for kv in &nd.key_values {
                if self.taints.contains(&(slot, wid.clone(), kv.key.clone(), kv.version)) {
                    out.push((wid.clone(), kv.key.clone(), kv.version));
                }
            }
        }
        out
    }

    // -------------------------------------------------------------------------------------
    // Monitors

    #[allow(clippy::too_many_arguments)]
    fn after_delivery(
        &mut self,
        dst: usize,
        dg: &Datagram,
        pre_copies: &BTreeMap<ChitchatId, (u64, u64)>,
        pre_self: Option<CopyView>,
        pre_calls: usize,
        pre_membership: Option<MembershipView>,
        pre_members: &BTreeSet<ChitchatId>,
        pre_hbs: &BTreeMap<ChitchatId, u64>,
        replied: bool,
    ) -> S<()> {
        let mon = self.mon;
        let node = self.nodes[dst].as_ref().unwrap();
        let self_id = node.id.clone();
        let self_wid = node.wid.clone();
        let my_cluster = self.cfg.cluster_of[dst] % 2;
        let src_cluster = self.cfg.cluster_of[dg.src] % 2;
        let (digest, ops): (Option<&Vec<WNodeDigest>>, Option<&Vec<WOp>>) = match &dg.model {
            WMsg::Syn { digest, .. } => (Some(digest), None),
            WMsg::SynAck { digest, ops } => (Some(digest), Some(ops)),
            WMsg::Ack { ops } => (None, Some(ops)),
            WMsg::BadCluster => (None, None),
        };
        let deltas: Vec<WNodeDelta> = ops.map(|o| group_ops(o).unwrap_or_default()).unwrap_or_default();
        if digest.map(|d| d.iter().any(|nd| nd.id == self_wid)).unwrap_or(false) || deltas.iter().any(|d| d.id == self_wid) {
            self.flags.relayed_about_self = true;
        }
        let post_copies: BTreeMap<ChitchatId, (u64, u64)> = node.chitchat.node_states().iter().map(|(id, ns)| (id.clone(), (ns.last_gc_version(), ns.max_version()))).collect();

        // Labels: reset / rejected / midreset / third party / truncated.
        let mut resets_observed = 0u32;
        for (id, (gc, max)) in &post_copies {
            let pre = pre_copies.get(id).copied().unwrap_or((0, 0));
            if *gc > pre.0 {
                resets_observed += 1;
            }
            if gc > max {
                self.flags.midreset_copy = true;
            }
            let _ = max;
        }
        if resets_observed > 0 {
            self.flags.reset = true;
        }
        for d in &deltas {
            let rid = d.id.to_real();
            if let (Some(pre), Some(post)) = (pre_copies.get(&rid), post_copies.get(&rid)) {
                if pre == post && (d.max_version > 0 || !d.kvs.is_empty()) {
                    self.flags.rejected_delta = true;
                }
            }
            if let Some(src_node) = self.nodes[dg.src].as_ref() {
                if rid != src_node.id && post_copies.get(&rid) != pre_copies.get(&rid) {
                    self.flags.third_party_learned = true;
                }
            }
            if self.passed_delete.contains(&(dst, rid.clone())) {
                self.flags.passed_delete_then_delivery = true;
            }
        }

        // C16: cross-cluster SYN must be answered by BadCluster only and change nothing.
        if let WMsg::Syn { cluster_id, .. } = &dg.model {
            if cluster_id != &self.cfg.cluster_ids[my_cluster as usize] {
                self.flags.cross_cluster_syn = true;
                if mon == Monitor::C16 {
                    let post = membership_view(&node.chitchat);
                    if let Some(pre) = &pre_membership {
                        if let Some(diff) = pre.diff_ignoring_self_heartbeat(&post, &self_id) {
                            return Err(fail(mon, "foreign-syn-changed-state", format!("SYN with cluster id {cluster_id:?} changed node n{dst}: {diff}")).into());
                        }
                    }
                }
            }
        }
        if mon == Monitor::C16 {
            if matches!(dg.model, WMsg::BadCluster) {
                let post = membership_view(&node.chitchat);
                if let Some(pre) = &pre_membership {
                    if let Some(diff) = pre.diff_ignoring_self_heartbeat(&post, &self_id) {
                        return Err(fail(mon, "badcluster-changed-state", format!("BadCluster changed node n{dst}: {diff}")).into());
                    }
                }
                if replied {
                    return Err(fail(mon, "badcluster-answered", "BadCluster was answered".into()).into());
                }
            }
            let _ = src_cluster;
        }

        // C05: own namespace untouched.
        if mon == Monitor::C05 {
            let post_self = node.chitchat.node_state(&self_id).map(copy_view);
            if let (Some(pre), Some(post)) = (&pre_self, &post_self) {
                if pre.entries != post.entries || pre.gc != post.gc || pre.max != post.max {
                    return Err(fail(mon, "own-namespace-changed", format!("processing {} changed n{dst}'s own namespace: ({},{}) {} entries -> ({},{}) {} entries", msg_kind(&dg.model), pre.gc, pre.max, pre.entries.len(), post.gc, post.max, post.entries.len())).into());
                }
                if post.hb != pre.hb && post.hb != pre.hb + 1 {
                    return Err(fail(mon, "own-heartbeat-changed", format!("own heartbeat went {} -> {} while processing a message", pre.hb, post.hb)).into());
                }
            } else {
                return Err(fail(mon, "own-state-missing", "own node state absent".into()).into());
            }
        }

        // C20: callback exactly once iff a reset happened.
        let calls = self.nodes[dst].as_ref().unwrap().calls.load(Ordering::SeqCst) - pre_calls;
        let mut predicted_resets = 0u32;
        for d in &deltas {
            let rid = d.id.to_real();
            if !post_copies.contains_key(&rid) {
                continue; // member unknown (and not creatable): delta ignored
            }
            let (gc_c, max_c) = pre_copies.get(&rid).copied().unwrap_or((0, 0));
            if d.from_version == 0 && d.last_gc > gc_c && d.last_gc > max_c {
                predicted_resets += 1;
            } else if d.from_version == 0 && d.last_gc > gc_c && d.last_gc == max_c {
                self.flags.narrow_no_reset = true;
            }
        }
        if predicted_resets > 0 {
            self.flags.reset_messages += 1;
        }
        if predicted_resets >= 2 {
            self.flags.multi_reset_message = true;
        }
        if mon == Monitor::C20 && self.cfg.callback {
            let expected = if resets_observed > 0 { 1 } else { 0 };
            if calls != expected {
                return Err(fail(mon, "callback-count", format!("{} reset {} member copies on n{dst} but the catch-up callback ran {} times", msg_kind(&dg.model), resets_observed, calls)).into());
            }
            if (predicted_resets > 0) != (resets_observed > 0) {
                return Err(fail(mon, "reset-prediction", format!("spec predicts {} resets for this {} but {} copies had their watermark raised", predicted_resets, msg_kind(&dg.model), resets_observed)).into());
            }
        }

        // Heartbeat values this node has been told (same-cluster digests only: a foreign SYN is
        // rejected before its digest is read).
        let same_cluster = match &dg.model {
            WMsg::Syn { cluster_id, .. } => cluster_id == &self.cfg.cluster_ids[my_cluster as usize],
            _ => true,
        };
        if let (Some(d), true) = (digest, same_cluster) {
            for nd in d {
                let rid = nd.id.to_real();
                if rid != self_id {
                    let e = self.max_hb_received.entry((dst, rid)).or_insert(0);
                    *e = (*e).max(nd.heartbeat);
                }
            }
        }
        // C12: recreation rule.
        for id in post_copies.keys() {
            if !pre_members.contains(id) {
                let key = (dst, id.clone());
                if let Some(hb_removed) = self.removed_hb.remove(&key) {
                    self.flags.member_recreated = true;
                    if mon == Monitor::C12 {
                        let offered = digest.and_then(|d| d.iter().find(|nd| nd.id.to_real() == *id)).map(|nd| nd.heartbeat);
                        match offered {
                            Some(h) if h > hb_removed => {}
                            other => {
                                return Err(fail(mon, "revived-by-stale-gossip", format!("n{dst} recreated removed member {:?} (heartbeat {hb_removed} at removal) on a {} offering heartbeat {:?}", id, msg_kind(&dg.model), other)).into());
                            }
                        }
                    }
                }
                self.fresh_timing.remove(&key);
                self.min_gap.remove(&key);
                self.fresh_since_creation.insert(key, (0, 0));
            }
        }
        if digest.map(|d| d.iter().any(|nd| self.removed_hb.contains_key(&(dst, nd.id.to_real())))).unwrap_or(false) {
            self.flags.removed_then_mentioned = true;
        }
        // Fresh heartbeat observations (for the "not live before two increasing heartbeats" rule).
        let max_interval_ns = self.cfg.fd.max_interval_ms as u128 * 1_000_000;
        let node = self.nodes[dst].as_ref().unwrap();
        for (id, ns) in node.chitchat.node_states() {
            if *id == self_id {
                continue;
            }
            let hb = u64::from(ns.heartbeat());
            let e = self.fresh_since_creation.entry((dst, id.clone())).or_insert((0, 0));
            let pre = pre_hbs.get(id).copied().unwrap_or(0);
            if hb > pre {
                e.1 += 1;
                self.ev_seq += 1;
                let t = self.fresh_timing.entry((dst, id.clone())).or_insert((None, None, None));
                if let Some(prev) = t.0 {
                    if self.now_ns - prev <= max_interval_ns {
                        // (the very first heartbeat value of a member is stored but not reported to
                        // the failure detector: its window gets an interval from the third
                        // observation on)
                        if e.1 >= 3 {
                            let gap = self.now_ns - prev;
                            let g = self.min_gap.entry((dst, id.clone())).or_insert(gap);
                            *g = (*g).min(gap);
                        }
                        t.1 = Some(self.ev_seq);
                    }
                }
                t.0 = Some(self.now_ns);
            }
            e.0 = hb;
        }

        // KF-1 taint: roots and propagation.
        self.update_taint(dst, dg, &deltas, pre_copies);

        self.check_copies(dst, Some(pre_copies))?;
        self.check_membership_basic(dst)?;
        Ok(())
    }

    fn update_taint(&mut self, dst: usize, dg: &Datagram, deltas: &[WNodeDelta], pre_copies: &BTreeMap<ChitchatId, (u64, u64)>) {
        let node = self.nodes[dst].as_ref().unwrap();
        for d in deltas {
            let rid = d.id.to_real();
            let Some(ns) = node.chitchat.node_state(&rid) else { continue };
            let (gc_c, max_c) = pre_copies.get(&rid).copied().unwrap_or((0, 0));
            let post_gc = ns.last_gc_version();
            let applied_without_reset = post_gc == gc_c;
            // Root: mid-reset copy took a plain set at or below its watermark that the owner later deleted.
            if applied_without_reset && gc_c > max_c && d.last_gc < gc_c {
                if let Some(ledger) = self.ledgers.get(&rid) {
                    for kv in &d.kvs {
                        if kv.version > max_c && kv.status == 0 && kv.version <= gc_c {
                            // (an empty interval when the set sits exactly at the watermark)
                            let later_delete = kv.version < gc_c
                                && ledger
                                    .by_version
                                    .range(kv.version + 1..=gc_c)
                                    .any(|(_, w)| w.key == kv.key && w.status != 0);
                            let present = ns.get_versioned(&kv.key).map(|vv| vv.version == kv.version).unwrap_or(false);
                            if later_delete && present {
                                self.taints.insert((dst, d.id.clone(), kv.key.clone(), kv.version));
                            }
                        }
                    }
                }
            }
            // Propagation.
            for (wid, key, version) in &dg.taint {
                if *wid == d.id {
                    let present = ns.get_versioned(key).map(|vv| vv.version == *version).unwrap_or(false);
                    if present {
                        self.taints.insert((dst, wid.clone(), key.clone(), *version));
                    }
                }
            }
        }
        // Drop taints whose entry is gone or replaced.
        let node = self.nodes[dst].as_ref().unwrap();
        let stale: Vec<_> = self
            .taints
            .iter()
            .filter(|(s, wid, key, version)| {
                *s == dst
                    && node
                        .chitchat
                        .node_state(&wid.to_real())
                        .and_then(|ns| ns.get_versioned(key))
                        .map(|vv| vv.version != *version)
                        .unwrap_or(true)
            })
            .cloned()
            .collect();
        for t in stale {
            self.taints.remove(&t);
        }
    }

    /// Ledger / frontier monitors over every copy held by `slot`.
    fn check_copies(&mut self, slot: usize, pre: Option<&BTreeMap<ChitchatId, (u64, u64)>>) -> S<()> {
        let mon = self.mon;
        let node = self.nodes[slot].as_ref().unwrap();
        let mut new_frontiers: Vec<((usize, ChitchatId), (u64, u64))> = Vec::new();
        let mut excluded = 0u64;
        let mut newly_passed: Vec<(usize, ChitchatId)> = Vec::new();
        for (id, ns) in node.chitchat.node_states() {
            let gc = ns.last_gc_version();
            let max = ns.max_version();
            let Some(ledger) = self.ledgers.get(id) else {
                if matches!(mon, Monitor::C03 | Monitor::C16) {
                    return Err(fail(mon, "unknown-member", format!("n{slot} knows member {:?} which never existed", id)).into());
                }
                continue;
            };
            if mon == Monitor::C16 && ledger.cluster != self.cfg.cluster_of[slot] % 2 {
                return Err(fail(mon, "foreign-member", format!("n{slot} (cluster {}) holds member {:?} of the other cluster", self.cfg.cluster_of[slot] % 2, id)).into());
            }
            // C04a: frontier and key-version monotonicity.
            let fkey = (slot, id.clone());
            if mon == Monitor::C04 {
                if let Some(prev) = self.frontiers.get(&fkey) {
                    if (gc, max) < *prev {
                        return Err(fail(mon, "frontier-decreased", format!("n{slot}'s copy of {:?}: (watermark, max version) went {:?} -> {:?}", id, prev, (gc, max))).into());
                    }
                }
                let kv = self.key_versions.entry(fkey.clone()).or_default();
                for (k, vv) in ns.key_values_including_deleted() {
                    if let Some((pv, pgc)) = kv.get(k) {
                        if vv.version < *pv && gc <= *pgc {
                            return Err(fail(mon, "key-version-decreased", format!("n{slot}'s copy of {:?}: key {k:?} went from version {pv} to {} without a reset (watermark {pgc} -> {gc})", id, vv.version)).into());
                        }
                    }
                    kv.insert(k.to_string(), (vv.version, gc));
                }
            }
            if mon == Monitor::C06 {
                for (k, vv) in ns.key_values_including_deleted() {
                    if status_code(&vv.status) != 0 {
                        self.marked_since.entry((slot, id.clone(), k.to_string(), vv.version)).or_insert(self.now_ns);
                    }
                }
            }
            new_frontiers.push((fkey, (gc, max)));
            // C03 / C05: never ahead of the owner.
            if matches!(mon, Monitor::C03 | Monitor::C05) {
                if max > ledger.max_version {
                    return Err(fail(mon, "copy-ahead-of-owner", format!("n{slot}'s copy of {:?} has max version {max} but the owner is at {}", id, ledger.max_version)).into());
                }
                let hb = u64::from(ns.heartbeat());
                if hb > ledger.heartbeat {
                    return Err(fail(mon, "heartbeat-ahead-of-owner", format!("n{slot} records heartbeat {hb} for {:?} whose own heartbeat is {}", id, ledger.heartbeat)).into());
                }
            }
            if mon == Monitor::C03 {
                for (k, vv) in ns.key_values_including_deleted() {
                    match ledger.by_version.get(&vv.version) {
                        Some(w) if w.key == k && w.value == vv.value && w.status == status_code(&vv.status) => {}
                        Some(w) => {
                            return Err(fail(mon, "entry-differs-from-owner-write", format!("n{slot}'s copy of {:?}: entry ({k:?}, {} bytes, v{}, status {}) but the owner's write v{} was ({:?}, {} bytes, status {})", id, vv.value.len(), vv.version, status_code(&vv.status), vv.version, w.key, w.value.len(), w.status)).into());
                        }
                        None => {
                            return Err(fail(mon, "entry-never-written", format!("n{slot}'s copy of {:?}: entry ({k:?}, v{}) was never written by the owner", id, vv.version)).into());
                        }
                    }
                }
            }
            if mon == Monitor::C02 {
                for (k, latest) in &ledger.latest_by_key {
                    if *latest > max {
                        continue;
                    }
                    let w = &ledger.by_version[latest];
                    let ok = match ns.get_versioned(k) {
                        Some(vv) => vv.version == *latest && status_code(&vv.status) == w.status && vv.value == w.value,
                        None => w.status != 0 && *latest <= gc,
                    };
                    if !ok {
                        let held = ns.get_versioned(k).map(|vv| (vv.version, status_code(&vv.status), vv.value.len()));
                        let tainted = held.map(|(v, _, _)| self.taints.contains(&(slot, WId::from_real(id), k.clone(), v))).unwrap_or(false);
                        if tainted && std::env::var_os("VERIF_NO_KF1_EXCLUSION").is_none() {
                            excluded += 1;
                            continue;
                        }
                        return Err(fail(mon, "not-exact-up-to-frontier", format!("n{slot}'s copy of {:?} (watermark {gc}, max {max}): key {k:?} was last written at v{latest} (status {}, {} bytes) but the copy holds {:?}", id, w.status, w.value.len(), held)).into());
                    }
                    if w.status != 0 {
                        newly_passed.push((slot, id.clone()));
                    }
                }
                for (k, vv) in ns.key_values_including_deleted() {
                    if !ledger.latest_by_key.contains_key(k) {
                        return Err(fail(mon, "key-never-written", format!("n{slot}'s copy of {:?} holds key {k:?} (v{}) that the owner never wrote", id, vv.version)).into());
                    }
                }
            } else {
                // Non-triviality bookkeeping only.
                for (k, latest) in &ledger.latest_by_key {
                    if *latest <= max && ledger.by_version[latest].status != 0 {
                        let _ = k;
                        newly_passed.push((slot, id.clone()));
                        break;
                    }
                }
            }
        }
        let _ = pre;
        // Members that disappeared: drop their tracked state.
        let present: BTreeSet<ChitchatId> = node.chitchat.node_states().keys().cloned().collect();
        self.frontiers.retain(|(s, id), _| *s != slot || present.contains(id));
        self.key_versions.retain(|(s, id), _| *s != slot || present.contains(id));
        if mon == Monitor::C06 {
            // An entry that left the copy (reset, catch-up replacing the key set) and comes back
            // later is a new receipt: its grace period starts again.
            let held: BTreeSet<(ChitchatId, String, u64)> = node.chitchat.node_states().iter().flat_map(|(id, ns)| ns.key_values_including_deleted().map(move |(k, vv)| (id.clone(), k.to_string(), vv.version))).collect();
            self.marked_since.retain(|(s, id, k, v), _| *s != slot || held.contains(&(id.clone(), k.clone(), *v)));
        }
        for (k, v) in new_frontiers {
            self.frontiers.insert(k, v);
        }
        for p in newly_passed {
            self.passed_delete.insert(p);
        }
        if excluded > 0 {
            self.excluded_known += excluded;
        }
        Ok(())
    }

    fn check_membership_basic(&mut self, slot: usize) -> S<()> {
        if !matches!(self.mon, Monitor::C12 | Monitor::C16) {
            return Ok(());
        }
        let mon = self.mon;
        let node = self.nodes[slot].as_ref().unwrap();
        let live: BTreeSet<ChitchatId> = node.chitchat.live_nodes().cloned().collect();
        let dead: BTreeSet<ChitchatId> = node.chitchat.dead_nodes().cloned().collect();
        if mon == Monitor::C12 {
            if let Some(x) = live.intersection(&dead).next() {
                return Err(fail(mon, "live-and-dead", format!("n{slot}: member {:?} is both live and dead", x)).into());
            }
            if !live.contains(&node.id) {
                return Err(fail(mon, "self-not-live", format!("n{slot} does not list itself as live")).into());
            }
            if node.chitchat.node_state(&node.id).is_none() {
                return Err(fail(mon, "self-removed", format!("n{slot} lost its own state")).into());
            }
        }
        if mon == Monitor::C16 {
            for id in live.iter().chain(dead.iter()) {
                match self.ledgers.get(id) {
                    Some(l) if l.cluster == self.cfg.cluster_of[slot] % 2 => {}
                    _ => return Err(fail(mon, "foreign-member", format!("n{slot} classifies {:?}, which is not a member of its cluster", id)).into()),
                }
            }
        }
        Ok(())
    }

    fn monitor_outgoing(&mut self, src: usize, msg: &WMsg) -> S<()> {
        if self.mon != Monitor::C12 {
            return Ok(());
        }
        let half = self.cfg.fd.dead_grace_ms as f64 * 1e6 / 2.0;
        let limit_ns = (half * (1.0 + 1.0 / 1_048_576.0)) as u128 + 1_000_000;
        let mut mentioned: Vec<WId> = Vec::new();
        match msg {
            WMsg::Syn { digest, .. } => mentioned.extend(digest.iter().map(|d| d.id.clone())),
            WMsg::SynAck { digest, ops } => {
                mentioned.extend(digest.iter().map(|d| d.id.clone()));
                mentioned.extend(ops.iter().filter_map(|o| if let WOp::Node { id, .. } = o { Some(id.clone()) } else { None }));
            }
            WMsg::Ack { ops } => mentioned.extend(ops.iter().filter_map(|o| if let WOp::Node { id, .. } = o { Some(id.clone()) } else { None })),
            WMsg::BadCluster => {}
        }
        for wid in mentioned {
            let rid = wid.to_real();
            if let Some(since) = self.dead_since.get(&(src, rid.clone())) {
                let dead_for = self.now_ns - since;
                if dead_for > limit_ns {
                    return Err(fail(Monitor::C12, "quarantined-member-mentioned", format!("n{src} mentions {:?} in a {} although it has been dead for {} ms (> half the grace period of {} ms)", rid, msg_kind(msg), dead_for / 1_000_000, self.cfg.fd.dead_grace_ms)).into());
                }
                if dead_for * 2 > self.cfg.fd.dead_grace_ms as u128 * 1_000_000 / 2 {
                    self.flags.scheduled_for_deletion = true;
                }
            }
        }
        Ok(())
    }

    fn liveness(&mut self, slot: usize) -> S<()> {
        let mon = self.mon;
        let node = self.nodes[slot].as_mut().unwrap();
        let pre_members: BTreeMap<ChitchatId, u64> = node.chitchat.node_states().iter().map(|(id, ns)| (id.clone(), u64::from(ns.heartbeat()))).collect();
        let mut early_rx = node.watcher.clone();
        if let Some(rx) = early_rx.as_mut() {
            rx.borrow_and_update();
        }
        if let Err(p) = guard(|| node.chitchat.verif_update_nodes_liveness()) {
            return Err(self.panic_policy(p, "update_nodes_liveness"));
        }
        let node = self.nodes[slot].as_ref().unwrap();
        let self_id = node.id.clone();
        let live: BTreeSet<ChitchatId> = node.chitchat.live_nodes().cloned().collect();
        let dead: BTreeSet<ChitchatId> = node.chitchat.dead_nodes().cloned().collect();
        let members: BTreeSet<ChitchatId> = node.chitchat.node_states().keys().cloned().collect();
        let grace_ns = self.cfg.fd.dead_grace_ms as u128 * 1_000_000;

        // Removal bookkeeping + C12 removal rule.
        for (id, hb) in &pre_members {
            if !members.contains(id) {
                self.flags.member_removed = true;
                self.removed_hb.insert((slot, id.clone()), *hb);
                // "a heartbeat strictly higher than the one known at removal": what the node
                // remembers must not be below a value it had already been told.
                if mon == Monitor::C12 {
                    let told = self.max_hb_received.get(&(slot, id.clone())).copied().unwrap_or(0);
                    if *hb < told {
                        return Err(fail(mon, "removal-memory-below-received-heartbeat", format!("n{slot} removed {:?} remembering heartbeat {hb} although a digest it processed earlier carried heartbeat {told} for that member: a survivor still advertising {told} would recreate it", id)).into());
                    }
                }
                self.fresh_since_creation.remove(&(slot, id.clone()));
                self.fresh_timing.remove(&(slot, id.clone()));
                self.min_gap.remove(&(slot, id.clone()));
                if mon == Monitor::C12 {
                    match self.dead_since.get(&(slot, id.clone())) {
                        Some(since) if self.now_ns - since >= grace_ns => {}
                        other => {
                            return Err(fail(mon, "removed-too-early", format!("n{slot} removed {:?} although it has been dead for {:?} ns (grace {grace_ns} ns)", id, other.map(|s| self.now_ns - s))).into());
                        }
                    }
                }
                self.dead_since.remove(&(slot, id.clone()));
                // The copy is gone: a later re-creation starts a new copy from (0, 0).
                self.frontiers.remove(&(slot, id.clone()));
                self.key_versions.remove(&(slot, id.clone()));
                self.passed_delete.remove(&(slot, id.clone()));
                self.marked_since.retain(|(s, m, _, _), _| !(*s == slot && m == id));
                let wid = WId::from_real(id);
                self.taints.retain(|(s, w, _, _)| !(*s == slot && *w == wid));
            }
        }
        if mon == Monitor::C12 {
            if !members.contains(&self_id) {
                return Err(fail(mon, "self-removed", format!("n{slot} removed itself")).into());
            }
            // The other direction of the dead-to-live path: a member with at least one accepted
            // interval in its window whose last fresh heartbeat is recent enough (half of
            // phi x min(smallest accepted gap, initial interval): the smoothed mean is at least
            // that minimum) is live after this evaluation - in particular it is not removed.
            let fdc = &self.cfg.fd;
            for id in pre_members.keys() {
                if *id == self_id {
                    continue;
                }
                let (Some(g), Some((Some(last), _, _))) = (self.min_gap.get(&(slot, id.clone())), self.fresh_timing.get(&(slot, id.clone()))) else { continue };
                let floor_ns = (*g).min(fdc.initial_interval_ms as u128 * 1_000_000) as f64;
                if ((self.now_ns - last) as f64) <= 0.5 * fdc.phi * floor_ns && floor_ns > 0.0 && !live.contains(id) {
                    return Err(fail(mon, "fresh-member-not-live", format!("after an evaluation on n{slot}, member {:?} is not live (still a member: {}) although its last fresh heartbeat is {} ms old and the smallest interval in its window is {} ms (phi threshold {}, initial interval {} ms)", id, members.contains(id), (self.now_ns - last) / 1_000_000, g / 1_000_000, fdc.phi, fdc.initial_interval_ms)).into());
                }
            }
            for id in &members {
                if *id == self_id {
                    continue;
                }
                let (l, d) = (live.contains(id), dead.contains(id));
                if l == d {
                    return Err(fail(mon, "not-partitioned", format!("after an evaluation on n{slot}, member {:?} is live={l} dead={d}", id)).into());
                }
                if let Some(since) = self.dead_since.get(&(slot, id.clone())) {
                    if d && self.now_ns - since >= grace_ns {
                        return Err(fail(mon, "not-removed-after-grace", format!("n{slot} still holds {:?}, dead for {} ms >= grace {} ms", id, (self.now_ns - since) / 1_000_000, self.cfg.fd.dead_grace_ms)).into());
                    }
                }
                if l {
                    let fresh = self.fresh_since_creation.get(&(slot, id.clone())).map(|e| e.1).unwrap_or(0);
                    if fresh < 2 {
                        return Err(fail(mon, "live-without-evidence", format!("n{slot} reports {:?} live after only {fresh} strictly increasing heartbeat observations", id)).into());
                    }
                    // "the normal dead-to-live path": two fresh observations at most max_interval
                    // apart, the later one after the last evaluation that found the member dead
                    let t = self.fresh_timing.get(&(slot, id.clone())).copied().unwrap_or((None, None, None));
                    let ok = match (t.1, t.2) {
                        (None, _) => false,
                        (Some(_), None) => true,
                        (Some(pair), Some(dead_eval)) => pair > dead_eval,
                    };
                    if !ok {
                        return Err(fail(mon, "live-without-fresh-pair", format!("n{slot} reports {:?} live, but no two fresh heartbeat observations at most max_interval apart exist whose later one came after the last evaluation that found it dead ({fresh} fresh observations in all)", id)).into());
                    }
                }
                if d {
                    self.ev_seq += 1;
                    let seq = self.ev_seq;
                    self.fresh_timing.entry((slot, id.clone())).or_insert((None, None, None)).2 = Some(seq);
                    // (an evaluation that finds the member dead empties its sampling window)
                    self.min_gap.remove(&(slot, id.clone()));
                }
            }
        }
        // dead_since tracking (as observed at evaluations).
        for id in &dead {
            self.dead_since.entry((slot, id.clone())).or_insert(self.now_ns);
        }
        let now_dead: BTreeSet<ChitchatId> = dead.clone();
        self.dead_since.retain(|(s, id), _| *s != slot || now_dead.contains(id));
        self.check_membership_basic(slot)?;

        // C13: watch channel.
        let node = self.nodes[slot].as_mut().unwrap();
        let current: BTreeMap<ChitchatId, u64> = live.iter().filter_map(|id| node.chitchat.node_state(id).map(|ns| (id.clone(), ns.max_version()))).collect();
        let changed = node.prev_eval.as_ref().map(|p| *p != current).unwrap_or(true);
        if mon == Monitor::C13 {
            let expected: BTreeMap<ChitchatId, u64> = live
                .iter()
                .filter_map(|id| node.chitchat.node_state(id).map(|ns| (id, ns)))
                .filter(|(_, ns)| eval_predicate(self.cfg.predicate, ns))
                .map(|(id, ns)| (id.clone(), ns.max_version()))
                .collect();
            let published: BTreeMap<ChitchatId, u64> = match &node.watcher {
                Some(w) => w.borrow().iter().map(|(id, ns)| (id.clone(), ns.max_version())).collect(),
                // a subscriber arriving after the evaluation
                None => node.chitchat.live_nodes_watcher().borrow().iter().map(|(id, ns)| (id.clone(), ns.max_version())).collect(),
            };
            if published != expected {
                let fmt = |m: &BTreeMap<ChitchatId, u64>| m.iter().map(|(id, v)| format!("{}@{v}", id.node_id)).collect::<Vec<_>>().join(",");
                return Err(fail(mon, "watch-channel-stale", format!("after an evaluation on n{slot} the watch channel lists [{}] but the live members satisfying the predicate are [{}]", fmt(&published), fmt(&expected))).into());
            }
            // The watch *stream* must hand out the same value as the watcher (checked whenever the
            // membership view changed; building a stream is comparatively expensive).
            if changed {
                use tokio_stream::Stream;
                let mut stream = Box::pin(node.chitchat.live_nodes_watch_stream());
                let waker = noop_waker();
                let mut cx = std::task::Context::from_waker(&waker);
                match stream.as_mut().poll_next(&mut cx) {
                    std::task::Poll::Ready(Some(v)) => {
                        let streamed: BTreeMap<ChitchatId, u64> = v.iter().map(|(id, ns)| (id.clone(), ns.max_version())).collect();
                        if streamed != expected {
                            return Err(fail(mon, "watch-stream-differs", format!("after an evaluation on n{slot} live_nodes_watch_stream() first yields {} members but {} live members satisfy the predicate", streamed.len(), expected.len())).into());
                        }
                    }
                    _ => return Err(fail(mon, "watch-stream-empty", format!("live_nodes_watch_stream() on n{slot} does not yield the current value")).into()),
                }
            }
            if changed && node.prev_eval.is_some() && early_rx.as_ref().map(|rx| !rx.has_changed().unwrap_or(false)).unwrap_or(false) {
                return Err(fail(mon, "no-publication", format!("live set / max versions changed on n{slot} but nothing was published")).into());
            }
        }
        if changed && node.prev_eval.is_some() {
            self.flags.predicate_or_live_changed = true;
        }
        node.prev_eval = Some(current);
        Ok(())
    }

    // -------------------------------------------------------------------------------------
    // C01 fair phase

    pub async fn fair_phase(&mut self, fair: &FairCfg, tally: &mut Tally) -> S<()> {
        let mon = Monitor::C01;
        // Drain or drop in-flight datagrams.
        if fair.flush {
            let mut guard_n = 0;
            while !self.inflight.is_empty() && guard_n < 300 {
                let dg = self.inflight.remove(0);
                self.deliver(dg)?;
                guard_n += 1;
            }
        }
        self.inflight.clear();
        let running = self.running();
        let n = running.len();
        if n < 2 {
            return Ok(());
        }
        // Connected topology over running nodes.
        let mut edges: BTreeSet<(usize, usize)> = BTreeSet::new();
        let mut order = running.clone();
        let mut x = fair.order_seed;
        for i in (1..order.len()).rev() {
            x = splitmix64(x);
            order.swap(i, (x % (i as u64 + 1)) as usize);
        }
        for w in order.windows(2) {
            edges.insert((w[0].min(w[1]), w[0].max(w[1])));
        }
        let mut bit = 0;
        for i in 0..n {
            for j in i + 1..n {
                if fair.complete || (fair.extra_edges >> (bit % 16)) & 1 == 1 {
                    edges.insert((running[i], running[j]));
                }
                bit += 1;
            }
        }
        for a in 0..MAX_SLOTS {
            for b in 0..MAX_SLOTS {
                self.links[a][b] = a != b && edges.contains(&(a.min(b), a.max(b)));
            }
        }
        let lagging_start = self.lagging_copies();
        if lagging_start == 0 {
            tally.label("fair_phase_started_converged");
        }
        let entries: usize = self.ledgers.values().map(|l| l.latest_by_key.len()).sum();
        let members = self.ledgers.len();
        let bound = 10 + n * (entries + members);
        let mut pairs: Vec<(usize, usize)> = edges.iter().flat_map(|(a, b)| [(*a, *b), (*b, *a)]).collect();
        let mut rounds = 0;
        loop {
            if self.lagging_copies() == 0 {
                break;
            }
            if rounds >= bound {
                let detail = self.lagging_detail();
                return Err(fail(mon, "no-convergence", format!("not converged after {rounds} fair rounds (bound {bound}) on {n} nodes: {detail}")).into());
            }
            rounds += 1;
            for i in (1..pairs.len()).rev() {
                x = splitmix64(x);
                pairs.swap(i, (x % (i as u64 + 1)) as usize);
            }
            for (a, b) in pairs.clone() {
                let owed = self.owed_between(a, b);
                let checkable = !owed.is_empty() && self.progress_checkable(a, b);
                let before: Vec<(u64, u64)> = owed.iter().map(|(s, id)| self.frontier_of(*s, id)).collect();
                self.handshake(a, b)?;
                if checkable {
                    let after: Vec<(u64, u64)> = owed.iter().map(|(s, id)| self.frontier_of(*s, id)).collect();
                    if !before.iter().zip(after.iter()).any(|(b, a)| a > b) {
                        return Err(fail(mon, "handshake-without-progress", format!("a complete handshake n{a} -> n{b} advanced none of the lagging copies {:?} (frontiers {:?})", owed.iter().map(|(s, id)| format!("n{s}:{}", id.node_id)).collect::<Vec<_>>(), before)).into());
                    }
                    tally.label("progress_checked");
                } else if !owed.is_empty() {
                    tally.label("progress_unchecked_side_condition");
                }
            }
            for s in self.running() {
                self.heartbeat(s)?;
            }
            advance_ns(1_000_000_000).await;
            self.now_ns += 1_000_000_000;
            for s in self.running() {
                self.liveness(s)?;
                if fair.gc_in_rounds {
                    self.gc_keys(s)?;
                }
            }
        }
        // "every advertised member (alive, or dead but not yet scheduled for deletion)": copies of
        // members whose owner is gone converge too, to the most advanced copy still advertised.
        let mut extra_rounds = 0;
        loop {
            let lag = self.lagging_dead_copies();
            if lag.is_empty() {
                break;
            }
            if extra_rounds >= bound {
                return Err(fail(mon, "no-convergence-dead-member", format!("after {extra_rounds} more fair rounds on {n} nodes the copies of a member whose owner is gone, still advertised by a running node, have not converged: {}", lag.join("; "))).into());
            }
            extra_rounds += 1;
            for (a, b) in pairs.clone() {
                self.handshake(a, b)?;
            }
            tally.label("dead_member_copies_lagged_after_owner_convergence");
        }
        tally.max("fair_rounds_needed", rounds as u64);
        tally.label(match rounds {
            0 => "rounds_0",
            1 => "rounds_1",
            2 => "rounds_2",
            3..=5 => "rounds_3_5",
            _ => "rounds_6_plus",
        });
        if lagging_start > 0 {
            tally.label("fair_phase_started_lagging");
        }
        Ok(())
    }

    fn frontier_of(&self, slot: usize, id: &ChitchatId) -> (u64, u64) {
        self.nodes[slot].as_ref().and_then(|n| n.chitchat.node_state(id)).map(|ns| (ns.last_gc_version(), ns.max_version())).unwrap_or((0, 0))
    }

    /// (node, member) pairs among {a, b} whose copy lags the other node's copy.
    fn owed_between(&self, a: usize, b: usize) -> Vec<(usize, ChitchatId)> {
        let mut out = Vec::new();
        let (Some(na), Some(nb)) = (self.nodes[a].as_ref(), self.nodes[b].as_ref()) else { return out };
        for (x, nx, y, ny) in [(a, na, b, nb), (b, nb, a, na)] {
            let _ = y;
            // Members the holder has scheduled for deletion are (rightly) not sent.
            // ... and a member the lagging node has scheduled for deletion is missing from its
            // digest, so the holder answers from version 0 (which cannot convey a bare max version).
            let holder_scheduled: BTreeSet<&ChitchatId> = ny.chitchat.scheduled_for_deletion_nodes().chain(nx.chitchat.scheduled_for_deletion_nodes()).collect();
            for (id, ns_other) in ny.chitchat.node_states() {
                if holder_scheduled.contains(id) {
                    continue;
                }
                if let Some(ns_mine) = nx.chitchat.node_state(id) {
                    if ns_other.max_version() > ns_mine.max_version() {
                        out.push((x, id.clone()));
                    }
                }
            }
        }
        out
    }

    fn progress_checkable(&self, a: usize, b: usize) -> bool {
        let (Some(na), Some(nb)) = (self.nodes[a].as_ref(), self.nodes[b].as_ref()) else { return false };
        // When everything either node holds fits a datagram several times over, the size budget
        // cannot be spent on members the other side ignores: every owed member is sent in full.
        let total = |n: &SimNode| -> usize { n.chitchat.node_states().iter().map(|(id, ns)| 64 + id.node_id.len() + ns.key_values_including_deleted().map(|(k, vv)| 32 + k.len() + vv.value.len()).sum::<usize>()).sum() };
        if total(na) < 16_000 && total(nb) < 16_000 {
            return true;
        }
        if na.chitchat.scheduled_for_deletion_nodes().next().is_some() || nb.chitchat.scheduled_for_deletion_nodes().next().is_some() {
            return false;
        }
        let ma: BTreeSet<&ChitchatId> = na.chitchat.node_states().keys().collect();
        let mb: BTreeSet<&ChitchatId> = nb.chitchat.node_states().keys().collect();
        ma == mb
    }

    /// Number of (running node, running owner) copies below the owner's max version.
    fn lagging_copies(&self) -> usize {
        let mut n = 0;
        for s in self.running() {
            let node = self.nodes[s].as_ref().unwrap();
            for o in self.running() {
                let owner = self.nodes[o].as_ref().unwrap();
                let owner_max = self.ledgers[&owner.id].max_version;
                match node.chitchat.node_state(&owner.id) {
                    Some(ns) if ns.max_version() == owner_max => {}
                    _ => n += 1,
                }
            }
        }
        n
    }

    /// Copies of members whose owner is not running (crashed, or a former incarnation of a
    /// restarted node) that lag behind the most advanced copy a running node still advertises
    /// (holds and has not scheduled for deletion). A node that removed the member and remembers
    /// it, or has itself scheduled it for deletion, is not expected to catch up.
    fn lagging_dead_copies(&self) -> Vec<String> {
        let running = self.running();
        let running_ids: BTreeSet<ChitchatId> = running.iter().map(|s| self.nodes[*s].as_ref().unwrap().id.clone()).collect();
        let mut members: BTreeSet<ChitchatId> = BTreeSet::new();
        for s in &running {
            for id in self.nodes[*s].as_ref().unwrap().chitchat.node_states().keys() {
                if !running_ids.contains(id) {
                    members.insert(id.clone());
                }
            }
        }
        let mut out = Vec::new();
        for m in members {
            for s in &running {
                let c = &self.nodes[*s].as_ref().unwrap().chitchat;
                if self.removed_hb.contains_key(&(*s, m.clone())) || c.scheduled_for_deletion_nodes().any(|i| *i == m) {
                    continue;
                }
                // the most advanced copy advertised by a *direct neighbour* (a node that has dropped
                // the member, or scheduled it, does not relay it)
                let mut best: Option<(usize, u64)> = None;
                for h in &running {
                    if h == s || !self.links[*s][*h] || !self.links[*h][*s] {
                        continue;
                    }
                    let hc = &self.nodes[*h].as_ref().unwrap().chitchat;
                    if hc.scheduled_for_deletion_nodes().any(|i| *i == m) {
                        continue;
                    }
                    if let Some(ns) = hc.node_state(&m) {
                        if best.map_or(true, |b| ns.max_version() > b.1) {
                            best = Some((*h, ns.max_version()));
                        }
                    }
                }
                let Some((h, best)) = best else { continue };
                let have = c.node_state(&m).map(|ns| ns.max_version());
                if have.map_or(true, |v| v < best) {
                    out.push(format!("n{s} holds {}:{} at {:?}, its neighbour n{h} advertises it at {best}", m.node_id, m.generation_id, have));
                }
            }
        }
        out
    }

    /// Debug aid (VERIF_TRACE): every running node's copies and the current taints.
    fn trace_state(&self) {
        for s in self.running() {
            let node = self.nodes[s].as_ref().unwrap();
            for (id, ns) in node.chitchat.node_states() {
                let entries: Vec<String> = ns.key_values_including_deleted().map(|(k, vv)| format!("{k:?}@{}s{}", vv.version, status_code(&vv.status))).collect();
                eprintln!("    n{s}: {}:{} gc {} max {} hb {} [{}]", id.node_id, id.generation_id, ns.last_gc_version(), ns.max_version(), u64::from(ns.heartbeat()), entries.join(" "));
            }
        }
        eprintln!("    inflight {} taints {:?}", self.inflight.len(), self.taints.iter().map(|(s, w, k, v)| format!("n{s}:{}:{k:?}@{v}", w.node_id)).collect::<Vec<_>>());
    }

    fn lagging_detail(&self) -> String {
        let mut out = Vec::new();
        for s in self.running() {
            let node = self.nodes[s].as_ref().unwrap();
            for o in self.running() {
                let owner = self.nodes[o].as_ref().unwrap();
                let owner_max = self.ledgers[&owner.id].max_version;
                let f = node.chitchat.node_state(&owner.id).map(|ns| (ns.last_gc_version(), ns.max_version()));
                if f.map(|f| f.1) != Some(owner_max) {
                    out.push(format!("n{s} holds n{o} at {:?} (owner max {owner_max})", f));
                }
            }
        }
        out.join("; ")
    }

    /// Final full sweep (every running node) and tally.
    fn finish(&mut self, tally: &mut Tally, case: &SimCase) -> S<()> {
        for s in self.running() {
            self.check_copies(s, None)?;
        }
        let f = &self.flags;
        let labels: [(&str, bool); 18] = [
            ("reset", f.reset),
            ("truncated", f.truncated),
            ("midreset_copy", f.midreset_copy),
            ("rejected_delta", f.rejected_delta),
            ("dup_delivery", f.dup_delivery),
            ("reordered", f.reordered),
            ("gc_collected", f.gc_collected),
            ("third_party_learned", f.third_party_learned),
            ("late_join", f.late_join),
            ("relayed_about_self", f.relayed_about_self),
            ("scheduled_for_deletion", f.scheduled_for_deletion),
            ("member_removed", f.member_removed),
            ("member_recreated", f.member_recreated),
            ("healed_divergent", f.healed_divergent),
            ("cross_cluster_syn", f.cross_cluster_syn),
            ("multi_reset_message", f.multi_reset_message),
            ("narrow_no_reset", f.narrow_no_reset),
            ("catch_up", f.catch_up),
        ];
        for (l, on) in labels {
            if on {
                tally.label(l);
            }
        }
        tally.sum("steps", self.steps);
        tally.sum("handshakes", self.handshakes);
        tally.sum("messages", self.messages);
        tally.sum("reset_messages", f.reset_messages as u64);
        if self.excluded_known > 0 {
            for _ in 0..self.excluded_known {
                tally.exclude_known("C02/resurrect:midreset-accept");
            }
            tally.label("kf1_case");
        }
        let nontrivial = match self.mon {
            Monitor::C01 => (f.reset || f.truncated || f.midreset_copy || f.rejected_delta || f.healed_divergent) && tally.labels.contains_key("fair_phase_started_lagging"),
            Monitor::C02 => f.passed_delete_then_delivery,
            Monitor::C03 => (self.running().len() >= 3 && f.third_party_learned) || f.reset,
            Monitor::C04 => f.dup_delivery || f.reordered,
            Monitor::C05 => f.relayed_about_self,
            Monitor::C06 => f.gc_collected && (f.reset || f.catch_up),
            Monitor::C12 => f.removed_then_mentioned,
            Monitor::C13 => f.predicate_or_live_changed,
            Monitor::C16 => f.cross_cluster_syn && (f.dup_delivery || f.reordered),
            Monitor::C20 => f.reset_messages > 0,
        };
        if nontrivial {
            tally.nontrivial(str_hash(&format!("{:?}", case)));
            tally.sample(|| json!({"slots": case.cfg.slots, "ops": case.ops.iter().take(30).map(|o| format!("{o:?}")).collect::<Vec<_>>(), "n_ops": case.ops.len()}));
        }
        Ok(())
    }
}

fn noop_waker() -> std::task::Waker {
    use std::task::{RawWaker, RawWakerVTable, Waker};
    fn raw() -> RawWaker {
        fn no(_: *const ()) {}
        fn clone(_: *const ()) -> RawWaker {
            raw()
        }
        static VT: RawWakerVTable = RawWakerVTable::new(clone, no, no, no);
        RawWaker::new(std::ptr::null(), &VT)
    }
    unsafe { Waker::from_raw(raw()) }
}

fn msg_kind(m: &WMsg) -> &'static str {
    match m {
        WMsg::Syn { .. } => "SYN",
        WMsg::SynAck { .. } => "SYN-ACK",
        WMsg::Ack { .. } => "ACK",
        WMsg::BadCluster => "BadCluster",
    }
}

#[derive(Clone, Debug, PartialEq)]
pub struct MembershipView {
    copies: BTreeMap<ChitchatId, CopyView>,
    live: BTreeSet<ChitchatId>,
    dead: BTreeSet<ChitchatId>,
    scheduled: BTreeSet<ChitchatId>,
}

pub fn membership_view(c: &Chitchat) -> MembershipView {
    MembershipView {
        copies: c.node_states().iter().map(|(id, ns)| (id.clone(), copy_view(ns))).collect(),
        live: c.live_nodes().cloned().collect(),
        dead: c.dead_nodes().cloned().collect(),
        scheduled: c.scheduled_for_deletion_nodes().cloned().collect(),
    }
}

impl MembershipView {
    fn diff_ignoring_self_heartbeat(&self, other: &MembershipView, self_id: &ChitchatId) -> Option<String> {
        if self.live != other.live {
            return Some(format!("live set {:?} -> {:?}", self.live, other.live));
        }
        if self.dead != other.dead {
            return Some(format!("dead set {:?} -> {:?}", self.dead, other.dead));
        }
        if self.scheduled != other.scheduled {
            return Some("scheduled-for-deletion set changed".into());
        }
        if self.copies.keys().collect::<Vec<_>>() != other.copies.keys().collect::<Vec<_>>() {
            return Some(format!("members {:?} -> {:?}", self.copies.keys().collect::<Vec<_>>(), other.copies.keys().collect::<Vec<_>>()));
        }
        for (id, a) in &self.copies {
            let b = &other.copies[id];
            let mut a2 = a.clone();
            let mut b2 = b.clone();
            if id == self_id {
                a2.hb = 0;
                b2.hb = 0;
            }
            if a2 != b2 {
                return Some(format!("copy of {:?} changed", id));
            }
        }
        None
    }
}

// ------------------------------------------------------------------------------------------
// Execution

pub fn exec_sim(case: &SimCase, mon: Monitor, tally: &mut Tally) -> Result<(), Failure> {
    with_paused_runtime(async {
        let mut world = World::new(&case.cfg, mon);
        let r: S<()> = async {
            let trace = std::env::var_os("VERIF_TRACE").is_some();
            for (i, op) in case.ops.iter().enumerate() {
                let r = world.apply(op).await;
                if trace {
                    eprintln!("--- step {i} {op:?} -> {}", if r.is_ok() { "ok" } else { "ERR" });
                    world.trace_state();
                }
                r?;
            }
            if let Some(fair) = &case.fair {
                world.fair_phase(fair, tally).await?;
            }
            world.finish(tally, case)
        }
        .await;
        match r {
            Ok(()) => Ok(()),
            Err(StepErr::Violation(f)) => Err(f),
            Err(StepErr::Discard(why)) => {
                let short: String = why.chars().take(70).collect();
                tally.discard(&short);
                Ok(())
            }
        }
    })
}

// ------------------------------------------------------------------------------------------
// Generators

#[derive(Clone, Copy, Debug, PartialEq, Eq)]
pub enum Profile {
    Small,
    Truncation,
    Gc,
    Partition,
    Membership,
    TwoClusters,
    /// Large values (20-45 KB, each fitting a datagram alone) together with deletes, grace-period
    /// clock advances and key GC: truncation, resets and collected tombstones in one history.
    TruncGc,
    /// Focused macro-level histories: slot 0 is the main writer, few nodes, large values, owner GC
    /// cycles, held SYN-ACKs, fresh joiners, external catch-ups; built to reach deep coincidences
    /// (mid-reset copies meeting delayed replies or stale peers) far more often than uniform ops.
    Deep,
    /// Phased deep histories (see `phased_ops_strategy`).
    Phased,
    /// Phased membership histories (see `membership_phased_ops_strategy`).
    MemberPhased,
}

fn val_small() -> impl Strategy<Value = Val> {
    // "v0".."v4", and now and then the empty string (a legal value, also under a TTL)
    prop_oneof![6 => (0u16..5).prop_map(Val::tiny), 1 => Just(Val { class: 1, len: 0, seed: 0 })]
}

fn val_large() -> impl Strategy<Value = Val> {
    (prop_oneof![1 => Just(2u8), 2 => Just(3u8), 3 => Just(4u8)], 8_000u32..30_000, any::<u16>()).prop_map(|(class, len, seed)| Val { class, len, seed })
}

fn val_huge() -> impl Strategy<Value = Val> {
    (prop_oneof![1 => Just(3u8), 2 => Just(4u8)], 20_000u32..45_000, any::<u16>()).prop_map(|(class, len, seed)| Val { class, len, seed })
}

fn wkind() -> impl Strategy<Value = WKind> {
    prop_oneof![5 => Just(WKind::Set), 2 => Just(WKind::SetTtl), 3 => Just(WKind::Delete), 2 => Just(WKind::DeleteTtl)]
}

fn adv(profile: Profile) -> BoxedStrategy<Adv> {
    let small = prop_oneof![3 => (1u32..2000).prop_map(Adv::Ms), 2 => (1u32..30).prop_map(Adv::Secs)];
    match profile {
        Profile::Gc | Profile::TruncGc => prop_oneof![3 => small, 5 => (-1i8..=1).prop_map(Adv::KvGrace)].boxed(),
        Profile::Deep | Profile::Phased => prop_oneof![1 => small, 6 => (0i8..=1).prop_map(Adv::KvGrace)].boxed(),
        Profile::Membership | Profile::MemberPhased => prop_oneof![4 => small, 2 => (-2i8..=2).prop_map(Adv::HalfDeadGrace), 2 => (-2i8..=2).prop_map(Adv::DeadGrace), 2 => (-2i8..=2).prop_map(Adv::PhiDeadline), 1 => (-1i8..=1).prop_map(Adv::KvGrace)].boxed(),
        _ => prop_oneof![8 => small, 1 => (-1i8..=1).prop_map(Adv::KvGrace), 1 => (-2i8..=2).prop_map(Adv::PhiDeadline), 1 => (-2i8..=2).prop_map(Adv::HalfDeadGrace)].boxed(),
    }
}

/// Selector that lands on slot `i` of a 4-slot world (monotone index mapping).
fn slot_sel(i: u16) -> u16 {
    i * 16_384 + 100
}

fn deep_op_strategy() -> BoxedStrategy<Op> {
    let any_slot = (0u16..4).prop_map(slot_sel);
    let peer_slot = (1u16..4).prop_map(slot_sel);
    let key = prop_oneof![Just(1u8), Just(2u8), Just(4u8), Just(5u8)];
    prop_oneof![
        7 => (key.clone(), val_huge()).prop_map(|(key, val)| Op::Write { node: slot_sel(0), kind: WKind::Set, key, val }),
        5 => (key.clone(), val_small()).prop_map(|(key, val)| Op::Write { node: slot_sel(0), kind: WKind::Set, key, val }),
        7 => (key.clone(), prop_oneof![Just(WKind::Delete), Just(WKind::DeleteTtl), Just(WKind::SetTtl)], val_small()).prop_map(|(key, kind, val)| Op::Write { node: slot_sel(0), kind, key, val }),
        2 => (peer_slot.clone(), wkind(), key.clone(), val_small()).prop_map(|(node, kind, key, val)| Op::Write { node, kind, key, val }),
        6 => (0i8..=1).prop_map(|k| Op::Advance(Adv::KvGrace(k))),
        8 => any_slot.clone().prop_map(Op::GcKeys),
        20 => (any_slot.clone(), any_slot.clone()).prop_map(|(a, b)| Op::Handshake { a, b }),
        9 => (any_slot.clone(), any_slot.clone()).prop_map(|(a, b)| Op::SynHold { a, b }),
        8 => any::<u16>().prop_map(Op::Deliver),
        3 => any::<u16>().prop_map(Op::Duplicate),
        2 => any::<u16>().prop_map(Op::Drop),
        6 => (any_slot.clone(), any_slot.clone(), prop_oneof![3 => Just(0u16), 1 => any::<u16>()]).prop_map(|(node, peer, member)| Op::CatchUp { node, peer, member }),
        4 => (any_slot.clone(), any_slot.clone(), prop_oneof![3 => Just(0u16), 1 => any::<u16>()]).prop_map(|(node, peer, member)| Op::CatchUpSerde { node, peer, member }),
        2 => any::<u16>().prop_map(Op::Join),
        1 => (any_slot.clone(), any_slot).prop_map(|(a, b)| Op::Cut { a, b }),
    ]
    .boxed()
}

/// Phased histories: build state on slot 0, spread it unevenly, mutate, spread again, let the
/// grace period pass and collect on a subset of nodes, hold some replies, reset / catch up the
/// lagging node, deliver the held replies late, finish with random handshakes. Every count, subset
/// and choice is generated; each phase is followed by optional noise from the deep op mix.
fn phased_ops_strategy() -> BoxedStrategy<Vec<Op>> {
    let key = || prop_oneof![Just(1u8), Just(2u8), Just(3u8), Just(4u8), Just(5u8)];
    let owner_write = move || {
        prop_oneof![
            6 => (key(), val_huge()).prop_map(|(key, val)| Op::Write { node: slot_sel(0), kind: WKind::Set, key, val }),
            3 => (key(), val_small()).prop_map(|(key, val)| Op::Write { node: slot_sel(0), kind: WKind::Set, key, val }),
            1 => (key(), val_small()).prop_map(|(key, val)| Op::Write { node: slot_sel(0), kind: WKind::SetTtl, key, val }),
        ]
    };
    let owner_delete = move || (key(), prop_oneof![2 => Just(WKind::Delete), 1 => Just(WKind::DeleteTtl)]).prop_map(|(key, kind)| Op::Write { node: slot_sel(0), kind, key, val: Val::tiny(0) });
    // handshakes of each follower with the owner: counts per follower (slots 1..3), either direction
    let spread = || {
        proptest::collection::vec((1u16..4, any::<bool>()), 0..10).prop_map(|v| {
            v.into_iter().map(|(f, dir)| if dir { Op::Handshake { a: slot_sel(f), b: slot_sel(0) } } else { Op::Handshake { a: slot_sel(0), b: slot_sel(f) } }).collect::<Vec<Op>>()
        })
    };
    let gc_phase = (0i8..=1, proptest::collection::vec(0u16..4, 0..4)).prop_map(|(k, nodes)| {
        let mut v = vec![Op::Advance(Adv::KvGrace(k))];
        v.extend(nodes.into_iter().map(|n| Op::GcKeys(slot_sel(n))));
        v
    });
    let holds = proptest::collection::vec((1u16..4, 0u16..4), 0..3).prop_map(|v| v.into_iter().map(|(a, b)| Op::SynHold { a: slot_sel(a), b: slot_sel(b) }).collect::<Vec<Op>>());
    let resets = proptest::collection::vec(
        prop_oneof![
            4 => (1u16..4, 1u16..4).prop_map(|(a, b)| Op::Handshake { a: slot_sel(a), b: slot_sel(b) }),
            2 => (1u16..4, 0u16..1).prop_map(|(a, b)| Op::Handshake { a: slot_sel(a), b: slot_sel(b) }),
            3 => (1u16..4, 0u16..4).prop_map(|(node, peer)| Op::CatchUp { node: slot_sel(node), peer: slot_sel(peer), member: 0 }),
        ],
        1..5,
    );
    let late = proptest::collection::vec(prop_oneof![4 => any::<u16>().prop_map(Op::Deliver), 1 => any::<u16>().prop_map(Op::Duplicate)], 0..4);
    let noise = || proptest::collection::vec(deep_op_strategy(), 0..2);
    (
        (proptest::collection::vec(owner_write(), 2..7), proptest::collection::vec(owner_delete(), 0..3), noise()),
        (spread(), noise()),
        (proptest::collection::vec(prop_oneof![2 => owner_write().boxed(), 2 => owner_delete().boxed()], 0..4), spread(), noise()),
        (gc_phase, holds, noise()),
        (resets, late, proptest::collection::vec(deep_op_strategy(), 0..5)),
        prop_oneof![
            1 => Just(Vec::<Op>::new()),
            1 => proptest::collection::vec(0u16..4, 1..4).prop_map(|nodes| {
                let mut v = vec![Op::Advance(Adv::KvGrace(1))];
                v.extend(nodes.into_iter().map(|n| Op::GcKeys(slot_sel(n))));
                v
            }),
        ],
    )
        .prop_map(|((w, d, n1), (s1, n2), (m, s2, n3), (g, h, n4), (r, l, fin), gc2)| {
            let mut ops = Vec::new();
            for part in [w, d, n1, s1, n2, m, s2, n3, g, h, n4, r, l, fin, gc2] {
                ops.extend(part);
            }
            ops
        })
        .boxed()
}

/// Phased membership histories on 4 slots: everybody gossips for a while (so that members become
/// live), one or two nodes crash (or are cut off), survivors evaluate liveness at skewed times
/// around grace/2 and grace (some detect the death early, some late, some never), survivors keep
/// writing and gossiping (relaying the dead member with equal / lower heartbeats), some nodes
/// join late or restart under a new generation.
fn membership_phased_ops_strategy() -> BoxedStrategy<Vec<Op>> {
    let any_slot = || (0u16..4).prop_map(slot_sel);
    let warmup = proptest::collection::vec(
        prop_oneof![
            5 => (any_slot(), any::<u8>()).prop_map(|(node, mask)| Op::Round { node, mask: mask | 0x0F }),
            2 => (1u32..3).prop_map(|s| Op::Advance(Adv::Secs(s))),
            2 => any::<u16>().prop_map(Op::Deliver),
            2 => (any_slot(), wkind(), 0u8..7, val_small()).prop_map(|(node, kind, key, val)| Op::Write { node, kind, key, val }),
        ],
        6..30,
    );
    let crash = proptest::collection::vec(prop_oneof![3 => any_slot().prop_map(Op::Crash), 1 => (any_slot(), any_slot()).prop_map(|(a, b)| Op::Cut { a, b })], 1..3);
    let skew = || {
        proptest::collection::vec(
            prop_oneof![
                5 => any_slot().prop_map(Op::Liveness),
                2 => (-2i8..=2).prop_map(|k| Op::Advance(Adv::HalfDeadGrace(k))),
                2 => (-2i8..=2).prop_map(|k| Op::Advance(Adv::DeadGrace(k))),
                1 => (-2i8..=2).prop_map(|k| Op::Advance(Adv::PhiDeadline(k))),
                2 => (any_slot(), any_slot()).prop_map(|(a, b)| Op::Handshake { a, b }),
                2 => (any_slot(), wkind(), 0u8..7, val_small()).prop_map(|(node, kind, key, val)| Op::Write { node, kind, key, val }),
                1 => (any_slot(), any_slot()).prop_map(|(a, b)| Op::SynHold { a, b }),
                1 => any::<u16>().prop_map(Op::Deliver),
                1 => any::<u16>().prop_map(Op::Duplicate),
                1 => any_slot().prop_map(Op::Heartbeat),
                1 => (any_slot(), any_slot(), any::<u16>()).prop_map(|(node, peer, member)| Op::CatchUp { node, peer, member }),
                2 => any_slot().prop_map(Op::GcKeys),
                1 => (0i8..=1).prop_map(|k| Op::Advance(Adv::KvGrace(k))),
                1 => (any_slot(), 0u8..7, val_large()).prop_map(|(node, key, val)| Op::Write { node, kind: WKind::Set, key, val }),
            ],
            3..16,
        )
    };
    let restart_and_gossip = (any::<u16>(), proptest::collection::vec((any_slot(), 1u32..3), 3..7)).prop_map(|(r, rounds)| {
        // the restarted node (and whoever else) gossips for a few seconds: heartbeats flow
        let mut v = vec![Op::Restart(r)];
        for (node, secs) in rounds {
            for s in 0..4u16 {
                v.push(Op::Round { node: slot_sel(s), mask: 0x0F });
            }
            for _ in 0..10 {
                v.push(Op::Deliver(0));
            }
            v.push(Op::Advance(Adv::Secs(secs)));
            v.push(Op::Liveness(node));
        }
        v
    });
    let comeback_single = proptest::collection::vec(
        prop_oneof![
            2 => any::<u16>().prop_map(Op::Restart),
            2 => any::<u16>().prop_map(Op::Join),
            2 => (any_slot(), any_slot()).prop_map(|(a, b)| Op::Heal { a, b }),
            3 => (any_slot(), any::<u8>()).prop_map(|(node, mask)| Op::Round { node, mask }),
            2 => (any_slot(), any_slot(), any::<u16>()).prop_map(|(node, peer, member)| Op::CatchUp { node, peer, member }),
        ],
        0..6,
    );
    let comeback = prop_oneof![2 => comeback_single, 1 => restart_and_gossip];
    (warmup, crash, skew(), comeback, skew())
        .prop_map(|(a, b, c, d, e)| {
            let mut ops = Vec::new();
            for part in [a, b, c, d, e] {
                ops.extend(part);
            }
            ops
        })
        .boxed()
}

fn op_strategy(profile: Profile) -> BoxedStrategy<Op> {
    if matches!(profile, Profile::Deep | Profile::Phased) {
        return deep_op_strategy();
    }
    let profile = if profile == Profile::MemberPhased { Profile::Membership } else { profile };
    let n = any::<u16>();
    let val: BoxedStrategy<Val> = match profile {
        Profile::Truncation => prop_oneof![1 => val_small(), 3 => val_large()].boxed(),
        Profile::TruncGc => prop_oneof![2 => val_small(), 5 => val_huge()].boxed(),
        _ => prop_oneof![12 => val_small(), 1 => val_large()].boxed(),
    };
    let write = (n, wkind(), 0u8..7, val).prop_map(|(node, kind, key, val)| Op::Write { node, kind, key, val }).boxed();
    let advance = adv(profile).prop_map(Op::Advance).boxed();
    let hb = n.prop_map(Op::Heartbeat).boxed();
    let gc = n.prop_map(Op::GcKeys).boxed();
    let live = n.prop_map(Op::Liveness).boxed();
    let syn = (n, n).prop_map(|(a, b)| Op::Syn { a, b }).boxed();
    let deliver = n.prop_map(Op::Deliver).boxed();
    let drop = n.prop_map(Op::Drop).boxed();
    let dup = n.prop_map(Op::Duplicate).boxed();
    let cut = (n, n).prop_map(|(a, b)| Op::Cut { a, b }).boxed();
    let heal = (n, n).prop_map(|(a, b)| Op::Heal { a, b }).boxed();
    let join = n.prop_map(Op::Join).boxed();
    let crash = n.prop_map(Op::Crash).boxed();
    let restart = n.prop_map(Op::Restart).boxed();
    let round = (n, any::<u8>()).prop_map(|(node, mask)| Op::Round { node, mask }).boxed();
    let handshake = (n, n).prop_map(|(a, b)| Op::Handshake { a, b }).boxed();
    let synhold = (n, n).prop_map(|(a, b)| Op::SynHold { a, b }).boxed();
    let catchup = (n, n, n, any::<bool>()).prop_map(|(node, peer, member, serde)| if serde { Op::CatchUpSerde { node, peer, member } } else { Op::CatchUp { node, peer, member } }).boxed();
    // weights: write adv hb gc live syn deliver drop dup cut heal join crash restart round handshake (+ synhold catchup: 2 each)
    let w: [u32; 16] = match profile {
        Profile::Small => [24, 5, 2, 4, 2, 10, 20, 3, 5, 2, 2, 2, 0, 0, 4, 15],
        Profile::Truncation => [30, 3, 1, 2, 1, 8, 18, 2, 4, 1, 1, 2, 0, 0, 2, 25],
        Profile::Gc => [24, 12, 1, 12, 1, 8, 14, 3, 5, 2, 2, 3, 0, 0, 3, 10],
        Profile::Partition => [18, 4, 2, 4, 2, 12, 18, 5, 10, 8, 7, 2, 0, 0, 3, 5],
        Profile::Membership => [10, 14, 6, 3, 14, 8, 12, 2, 3, 3, 3, 2, 5, 3, 10, 2],
        Profile::TwoClusters => [12, 4, 3, 2, 6, 22, 22, 4, 8, 1, 1, 2, 0, 0, 8, 5],
        Profile::TruncGc => [28, 9, 1, 9, 1, 5, 14, 2, 3, 1, 1, 2, 0, 0, 2, 24],
        Profile::Deep | Profile::Phased | Profile::MemberPhased => unreachable!(),
    };
    let all = [write, advance, hb, gc, live, syn, deliver, drop, dup, cut, heal, join, crash, restart, round, handshake];
    let mut options: Vec<(u32, BoxedStrategy<Op>)> = w.iter().zip(all).filter(|(w, _)| **w > 0).map(|(w, s)| (*w, s)).collect();
    options.push((2, synhold));
    options.push((2, catchup));
    proptest::strategy::Union::new_weighted(options).boxed()
}

fn fd_strategy(profile: Profile) -> BoxedStrategy<FdCfg> {
    let grace = match profile {
        Profile::Membership => prop_oneof![4 => Just(20_000u64), 1 => Just(3_600_000u64)].boxed(),
        Profile::MemberPhased => prop_oneof![3 => Just(20_000u64), 2 => Just(3_600_000u64)].boxed(),
        _ => prop_oneof![1 => Just(20_000u64), 2 => Just(3_600_000u64), 3 => Just(86_400_000u64)].boxed(),
    };
    (prop_oneof![Just(4.0f64), Just(8.0f64)], prop_oneof![Just(10usize), Just(1000usize)], prop_oneof![Just(1000u64), Just(5000u64)], grace)
        .prop_map(|(phi, window, initial, dead_grace_ms)| FdCfg { phi, window, max_interval_ms: 10_000, initial_interval_ms: initial, dead_grace_ms })
        .boxed()
}

fn cfg_strategy(profile: Profile, mon: Monitor) -> BoxedStrategy<SimCfg> {
    let kv_grace = match profile {
        Profile::Gc | Profile::TruncGc | Profile::Deep | Profile::Phased => prop_oneof![3 => Just(2_000u64), 1 => Just(10_000u64)].boxed(),
        _ => prop_oneof![1 => Just(0u64), 2 => Just(2_000u64), 2 => Just(10_000u64), 3 => Just(3_600_000u64)].boxed(),
    };
    let predicate = if mon == Monitor::C13 { (0u8..6).boxed() } else { prop_oneof![4 => Just(0u8), 1 => 1u8..6].boxed() };
    let two = profile == Profile::TwoClusters;
    let ids = prop_oneof![
        Just("c".to_string()),
        Just("".to_string()),
        Just("C".to_string()),
        Just("cc".to_string()),
        Just("c ".to_string()),
        Just(" c".to_string()),
        Just("c\n".to_string()),
        Just("cluster-with-a-rather-long-identifier-0123456789".to_string()),
        Just("ç".to_string()),
        // paired below with a different id that has the same std `DefaultHasher` value (a pair
        // found by a birthday search; dictionary entry from seeded change C16-R3A)
        Just("cluster-3b0e18ecb093926e".to_string()),
        (1usize..400, any::<u16>()).prop_map(|(len, seed)| expand_value(4, len, seed as u64)),
        (100usize..300).prop_map(|n| format!("{}é-cluster", "a".repeat(n))),
    ];
    (2u8..=5, 1u8..=5, kv_grace, fd_strategy(profile), predicate, any::<u64>(), proptest::array::uniform5(0u8..2), ids.clone(), ids)
        .prop_map(move |(slots, initial, kv_grace_ms, fd, predicate, shuffle_seed, clusters, id0, id1)| {
            let cluster_of = if two { clusters } else { [0; 5] };
            let id1 = if id0 == "cluster-3b0e18ecb093926e" { "cluster-70096deb9b6ee28d".to_string() } else if id1 == id0 { format!("{id0}x") } else { id1 };
            let (slots, initial) = if profile == Profile::MemberPhased { (4, 3.max(initial.min(4))) } else if matches!(profile, Profile::Deep | Profile::Phased) { (4, if profile == Profile::Phased { 4 } else { 3.max(initial.min(4)) }) } else { (slots, initial) };
            SimCfg {
                slots,
                initial: initial.min(slots).max(if two { slots } else { 1 }),
                kv_grace_ms,
                fd,
                callback: mon == Monitor::C20,
                predicate,
                cluster_of,
                cluster_ids: [id0, id1],
                shuffle_seed,
                // derived from the shuffle seed (keeps the strategy tuple within proptest's arity)
                seeded: shuffle_seed % 3 == 0,
                no_persistent_watcher: (shuffle_seed >> 8) % 3 == 0,
            }
        })
        .boxed()
}

fn fair_strategy() -> impl Strategy<Value = FairCfg> {
    (any::<bool>(), any::<u16>(), any::<bool>(), any::<u64>(), any::<bool>()).prop_map(|(flush, extra_edges, complete, order_seed, gc_in_rounds)| FairCfg { flush, extra_edges, complete, order_seed, gc_in_rounds })
}

pub fn profiles_for(mon: Monitor) -> Vec<(u32, Profile)> {
    match mon {
        Monitor::C12 | Monitor::C13 => vec![(4, Profile::Membership), (4, Profile::MemberPhased), (1, Profile::Gc), (1, Profile::Partition)],
        Monitor::C16 => vec![(1, Profile::TwoClusters)],
        Monitor::C06 => vec![(3, Profile::Gc), (2, Profile::TruncGc), (4, Profile::Deep), (5, Profile::Phased)],
        Monitor::C01 => vec![(3, Profile::Small), (2, Profile::Truncation), (3, Profile::Gc), (2, Profile::Partition), (3, Profile::TruncGc), (3, Profile::Deep), (3, Profile::Phased), (2, Profile::Membership), (4, Profile::MemberPhased)],
        _ => vec![(3, Profile::Small), (2, Profile::Truncation), (4, Profile::Gc), (2, Profile::Partition), (1, Profile::Membership), (2, Profile::TruncGc), (4, Profile::Deep), (5, Profile::Phased), (2, Profile::MemberPhased)],
    }
}

pub fn case_strategy(mon: Monitor, max_ops: usize) -> BoxedStrategy<SimCase> {
    let options: Vec<(u32, BoxedStrategy<SimCase>)> = profiles_for(mon)
        .into_iter()
        .map(|(w, profile)| {
            let len = if matches!(profile, Profile::Truncation | Profile::TruncGc | Profile::Deep) { max_ops / 2 } else { max_ops };
            let ops: BoxedStrategy<Vec<Op>> = if profile == Profile::Phased { phased_ops_strategy() } else if profile == Profile::MemberPhased { membership_phased_ops_strategy() } else { proptest::collection::vec(op_strategy(profile), 3..=len.max(4)).boxed() };
            let s: BoxedStrategy<SimCase> = if mon == Monitor::C01 {
                (cfg_strategy(profile, mon), ops, fair_strategy()).prop_map(|(cfg, ops, fair)| SimCase { cfg, ops, fair: Some(fair) }).boxed()
            } else {
                (cfg_strategy(profile, mon), ops).prop_map(|(cfg, ops)| SimCase { cfg, ops, fair: None }).boxed()
            };
            (w, s)
        })
        .collect();
    proptest::strategy::Union::new_weighted(options).boxed()
}

pub fn run(ctx: &Ctx, report: &mut Report, mon: Monitor, quick: u64, thorough: u64) {
    let max_ops = match mon {
        Monitor::C01 => ctx.tier.pick(60, 150),
        _ => ctx.tier.pick(80, 250),
    };
    report.push(run_proptest(ctx, "histories", ctx.cases(quick, thorough), 600, || case_strategy(mon, max_ops), |c, t| exec_sim(c, mon, t)));
}

pub fn replay(ctx: &Ctx, sub: &str, case: &serde_json::Value, mon: Monitor) -> SubResult {
    replay_case::<SimCase, _>(ctx, sub, case, |c, t| exec_sim(c, mon, t))
}

// ------------------------------------------------------------------------------------------
// C12: the removed-member memory (500 entries). Many members die and are removed; stale digests
// must not revive any of them, strictly higher heartbeats must.

#[derive(Clone, Debug, Serialize, Deserialize)]
pub struct MemoryCase {
    /// Number of members that are introduced and removed (1..=500).
    pub members: u16,
    /// Heartbeat known at removal.
    pub heartbeat: u32,
    /// Second wave: members removed a second time at a higher heartbeat (exercises overwrite).
    pub second_wave: bool,
    /// Order in which the stale digests come back (seed of a permutation).
    pub order_seed: u32,
}

pub fn exec_memory(case: &MemoryCase, tally: &mut Tally) -> Result<(), Failure> {
    with_paused_runtime(async {
        let mon = Monitor::C12;
        let n = (case.members as usize).clamp(1, 500);
        let fd = FdCfg { dead_grace_ms: 20_000, ..FdCfg::default() };
        let id = simple_id("obs", 0, 7000);
        let mut node = build_node(&id, "c", Duration::from_secs(3600), &fd, false, 0).chitchat;
        let ids: Vec<WId> = (0..n).map(|i| WId::v4(&format!("d{i}"), 0, 10_000 + i as u16)).collect();
        let digest_msg = |hb: u64, subset: &[usize]| -> chitchat::ChitchatMessage {
            let mut d: Vec<WNodeDigest> = subset.iter().map(|i| WNodeDigest { id: ids[*i].clone(), heartbeat: hb, last_gc: 0, max_version: 0 }).collect();
            sort_digest_real_order(&mut d);
            let (bytes, _) = encode_msg(&WMsg::Syn { cluster_id: "c".into(), digest: d }, Blocking::Canonical);
            real_decode(&bytes).expect("decodes").0
        };
        let all: Vec<usize> = (0..n).collect();
        let mut hb = case.heartbeat as u64 + 1;
        let waves = if case.second_wave { 2 } else { 1 };
        for wave in 0..waves {
            // introduce (or revive with a strictly higher heartbeat), let them die, remove them
            node.verif_process_message(digest_msg(hb, &all));
            if node.node_states().len() != n + 1 {
                return Err(fail(mon, "not-recreated-by-higher-heartbeat", format!("wave {wave}: a digest with heartbeat {hb} (strictly higher than at removal) left {} of {n} members known", node.node_states().len() - 1)));
            }
            node.verif_update_nodes_liveness();
            advance_ns(20_000 * 1_000_000).await;
            node.verif_update_nodes_liveness();
            if node.node_states().len() != 1 {
                return Err(fail(mon, "not-removed-after-grace", format!("wave {wave}: {} members still present after the grace period", node.node_states().len() - 1)));
            }
            if wave + 1 < waves {
                hb += 3;
            }
        }
        // stale digests (equal and lower heartbeats), in a shuffled order, in chunks
        let mut order = all.clone();
        let mut x = case.order_seed as u64;
        for i in (1..order.len()).rev() {
            x = splitmix64(x);
            order.swap(i, (x % (i as u64 + 1)) as usize);
        }
        for (c, chunk) in order.chunks(97).enumerate() {
            let stale = if c % 2 == 0 { hb } else { hb.saturating_sub(1) };
            node.verif_process_message(digest_msg(stale, chunk));
            if node.node_states().len() != 1 {
                let revived: Vec<String> = node.node_states().keys().filter(|k| **k != id).map(|k| k.node_id.clone()).take(3).collect();
                return Err(fail(mon, "revived-by-stale-gossip", format!("{} removed members (heartbeat {hb} at removal) were recreated by a digest carrying heartbeat {stale}: {revived:?}", node.node_states().len() - 1)));
            }
        }
        // a strictly higher heartbeat recreates them (dead, not live)
        node.verif_process_message(digest_msg(hb + 1, &all));
        if node.node_states().len() != n + 1 {
            return Err(fail(mon, "not-recreated-by-higher-heartbeat", format!("a digest with heartbeat {} recreated only {} of {n} removed members", hb + 1, node.node_states().len() - 1)));
        }
        node.verif_update_nodes_liveness();
        if node.live_nodes().count() != 1 {
            return Err(fail(mon, "live-without-evidence", "recreated members are live after a single heartbeat".into()));
        }
        tally.nontrivial(str_hash(&format!("{case:?}")));
        tally.max("removed_members", n as u64);
        tally.sample(|| serde_json::to_value(case).unwrap());
        Ok(())
    })
}

pub fn memory_strategy() -> impl Strategy<Value = MemoryCase> {
    (prop_oneof![3 => 1u16..40, 2 => 40u16..400, 2 => 400u16..=500, 1 => Just(500u16)], 0u32..1000, any::<bool>(), any::<u32>())
        .prop_map(|(members, heartbeat, second_wave, order_seed)| MemoryCase { members, heartbeat, second_wave, order_seed })
}

pub fn run_memory(ctx: &Ctx, report: &mut Report) {
    report.push(run_proptest(ctx, "removed-member-memory", ctx.cases(600, 20_000), 200, memory_strategy, exec_memory));
}

pub fn replay_memory(ctx: &Ctx, sub: &str, case: &serde_json::Value) -> SubResult {
    replay_case::<MemoryCase, _>(ctx, sub, case, exec_memory)
}

// ------------------------------------------------------------------------------------------
// C16 sub-check: one node receives a long run of SYNs of another cluster whose id is related to
// its own (own id + suffix, a prefix of it, a case variant, one character changed), with ids of
// lengths around 64 / 128 / 256 / 512 / 1,024 bytes: every one of them is answered with a
// rejection and leaves membership and failure-detector state untouched - the 1st like the 256th
// and the 1,000th.

#[derive(Clone, Debug, Serialize, Deserialize)]
pub struct ForeignCase {
    pub own_len_sel: u8,
    /// A two-byte character straddles the last byte positions of the own id.
    pub multibyte: bool,
    /// 0 own+"-canary", 1 own+"x", 2 own minus its last character, 3 case variant, 4 last character changed, 5 unrelated
    pub relation: u8,
    pub count_sel: u8,
    pub digest_members: u8,
}

pub fn exec_foreign(case: &ForeignCase, tally: &mut Tally) -> Result<(), Failure> {
    with_paused_runtime(async {
        let mon = Monitor::C16;
        let len = [0usize, 1, 3, 63, 64, 127, 128, 255, 256, 257, 300, 511, 512, 1024][case.own_len_sel as usize % 14];
        let mut own: String = (0..len).map(|i| (b'a' + (i % 26) as u8) as char).collect();
        if case.multibyte && len >= 2 {
            own.truncate(len - 2);
            own.push('é');
        }
        let mut foreign = match case.relation % 6 {
            0 => format!("{own}-canary"),
            1 => format!("{own}x"),
            2 => {
                let mut f = own.clone();
                f.pop();
                f
            }
            3 => own.to_uppercase(),
            4 => {
                let mut f = own.clone();
                f.pop();
                f.push('#');
                f
            }
            _ => "another-cluster".to_string(),
        };
        if foreign == own {
            foreign.push_str("-other");
        }
        let count = [1usize, 5, 255, 256, 257, 300, 513, 1030][case.count_sel as usize % 8];
        let id = simple_id("n", 0, 7000);
        let mut node = build_node(&id, &own, Duration::from_secs(3600), &FdCfg::default(), false, 0).chitchat;
        node.self_node_state().set("secret", "1");
        let members: Vec<WId> = (0..case.digest_members as usize % 4).map(|i| WId::v4(&format!("f{i}"), 0, 7100 + i as u16)).collect();
        let before_members = node.node_states().len();
        for k in 0..count {
            let mut digest: Vec<WNodeDigest> = members.iter().map(|m| WNodeDigest { id: m.clone(), heartbeat: 1 + k as u64, last_gc: 0, max_version: 0 }).collect();
            sort_digest_real_order(&mut digest);
            let (bytes, _) = encode_msg(&WMsg::Syn { cluster_id: foreign.clone(), digest }, Blocking::Canonical);
            let msg = match real_decode(&bytes) {
                Ok((m, _)) => m,
                Err(e) => {
                    tally.discard(&format!("undecodable: {}", e.chars().take(40).collect::<String>()));
                    return Ok(());
                }
            };
            let reply = match guard(|| node.verif_process_message(msg)) {
                Ok(r) => r,
                Err(p) => return Err(fail(mon, &p.signature(), format!("processing foreign SYN number {} panicked: {}", k + 1, p.describe()))),
            };
            let rejected = matches!(reply.as_ref().map(chitchat::verif::verif_describe), Some(chitchat::verif::VerifMessage::BadCluster));
            if !rejected || node.node_states().len() != before_members {
                return Err(fail(
                    mon,
                    "foreign-syn-accepted",
                    format!("own cluster id of {} bytes, foreign id of {} bytes (relation {}): foreign SYN number {} of {count} was {} and the node now knows {} members (was {before_members})", own.len(), foreign.len(), case.relation % 6, k + 1, if rejected { "rejected" } else { "NOT answered with a rejection" }, node.node_states().len()),
                ));
            }
        }
        // What a receive buffer shorter than the datagram would hand over: the same foreign SYN cut
        // inside its trailing cluster id (also right where the rest equals the own id). Whatever
        // the decoder makes of it, the node must not take it for a SYN of its own cluster.
        {
            let mut digest: Vec<WNodeDigest> = members.iter().map(|m| WNodeDigest { id: m.clone(), heartbeat: 5_000, last_gc: 0, max_version: 0 }).collect();
            sort_digest_real_order(&mut digest);
            let (bytes, _) = encode_msg(&WMsg::Syn { cluster_id: foreign.clone(), digest }, Blocking::Canonical);
            let mut cuts: Vec<usize> = vec![1, 2, foreign.len() / 2];
            if foreign.len() > own.len() && foreign.starts_with(own.as_str()) {
                cuts.push(foreign.len() - own.len());
            }
            for cut in cuts {
                if cut == 0 || cut >= bytes.len() {
                    continue;
                }
                let Ok(Ok((msg, _))) = guard(|| real_decode(&bytes[..bytes.len() - cut])) else { continue };
                let reply = match guard(|| node.verif_process_message(msg)) {
                    Ok(r) => r,
                    Err(p) => return Err(fail(mon, &p.signature(), format!("processing a truncated foreign SYN panicked: {}", p.describe()))),
                };
                let rejected = matches!(reply.as_ref().map(chitchat::verif::verif_describe), Some(chitchat::verif::VerifMessage::BadCluster));
                if !rejected || node.node_states().len() != before_members {
                    return Err(fail(mon, "truncated-foreign-syn-accepted", format!("own cluster id of {} bytes, foreign id of {} bytes: the foreign SYN cut {cut} bytes before its end decoded and was {}; the node now knows {} members (was {before_members})", own.len(), foreign.len(), if rejected { "rejected" } else { "NOT answered with a rejection" }, node.node_states().len())));
                }
                tally.label("truncated_foreign_syn_decoded");
            }
        }
        node.verif_update_nodes_liveness();
        if node.live_nodes().count() != 1 || node.dead_nodes().count() != 0 {
            return Err(fail(mon, "foreign-syn-changed-liveness", format!("after {count} foreign SYNs the node lists {} live and {} dead members", node.live_nodes().count(), node.dead_nodes().count())));
        }
        tally.nontrivial(str_hash(&format!("{case:?}")));
        if count >= 256 {
            tally.label("256_or_more_foreign_syns");
        }
        if own.len() >= 255 && case.relation % 6 <= 1 {
            tally.label("long_own_id_is_a_prefix_of_the_foreign_id");
        }
        Ok(())
    })
}

pub fn foreign_strategy() -> impl Strategy<Value = ForeignCase> {
    (0u8..14, proptest::bool::weighted(0.3), 0u8..6, 0u8..8, 0u8..4).prop_map(|(own_len_sel, multibyte, relation, count_sel, digest_members)| ForeignCase { own_len_sel, multibyte, relation, count_sel, digest_members })
}

pub fn run_foreign(ctx: &Ctx, report: &mut Report) {
    report.push(run_proptest(ctx, "foreign-syn-runs", ctx.cases(1_600, 60_000), 100, foreign_strategy, exec_foreign));
}

pub fn replay_foreign(ctx: &Ctx, sub: &str, case: &serde_json::Value) -> SubResult {
    replay_case::<ForeignCase, _>(ctx, sub, case, exec_foreign)
}
