//! Generated cluster states built on a real node: the node's own namespace through the public
//! API, other members' copies through honest-form messages crafted with the independent encoder.
//! Used by C07 (reply size / truncation exactness) and C08 (messages emitted by real nodes).

use std::collections::BTreeMap;
use std::time::Duration;

use chitchat::{Chitchat, ChitchatId};
use proptest::prelude::*;
use serde::{Deserialize, Serialize};

use crate::common::*;
use crate::util::*;
use crate::wire::*;

#[derive(Clone, Debug, Serialize, Deserialize)]
pub struct EntrySpec {
    /// Key index within the member (keys are distinct); 0xFFFF = the empty key.
    pub key_idx: u16,
    pub key_pad: u16,
    pub val: Val,
    /// 0 set, 1 deleted, 2 delete-after-ttl
    pub status: u8,
    /// Version increment from the previous entry (>= 1).
    pub gap: u8,
}

#[derive(Clone, Debug, Serialize, Deserialize)]
pub struct MemberSpec {
    pub ipv6: bool,
    pub node_id_len: u16,
    pub heartbeat: u32,
    /// 0: watermark 0; 1: below the first entry; 2: in the middle (entries at or below it are
    /// forced to plain sets, as on any reachable copy); 3: above the max version (mid-reset copy)
    pub gc_mode: u8,
    pub entries: Vec<EntrySpec>,
    /// max version = last entry version + extra_max
    pub extra_max: u8,
    /// After the copy is built, an external catch-up call (fed with a less-collected peer's state)
    /// brings in a tombstone at or below the copy's watermark and one more version.
    #[serde(default)]
    pub catchup_tombstone: bool,
}

#[derive(Clone, Debug, Serialize, Deserialize)]
pub struct StateSpec {
    /// The node's own namespace: entries written through the API in order; status 1/2 means the
    /// key is subsequently deleted / TTL-marked (consuming one more version).
    pub own: Vec<EntrySpec>,
    /// Run key GC on the node after advancing beyond the grace period (collects own tombstones).
    pub own_gc: bool,
    pub members: Vec<MemberSpec>,
    /// The first `aged` members are introduced, then a liveness evaluation declares them dead
    /// and the clock moves past half the dead-node grace period: they are scheduled for deletion.
    #[serde(default)]
    pub aged: u8,
}

pub fn key_string(e: &EntrySpec) -> String {
    if e.key_idx == 0xFFFF {
        return String::new();
    }
    let mut k = format!("k{:04}", e.key_idx);
    if e.key_pad > 0 {
        k.push_str(&expand_value(3, e.key_pad as usize, e.key_idx as u64 + 17));
    }
    k
}

pub fn member_id(i: usize, m: &MemberSpec) -> WId {
    let mut node_id = format!("m{i:03}");
    if (m.node_id_len as usize) > node_id.len() {
        node_id.push_str(&expand_value(3, m.node_id_len as usize - node_id.len(), i as u64 + 99));
    }
    WId {
        node_id,
        generation: i as u64,
        ip: if m.ipv6 { WIp::V6([0x20, 1, 0xd, 0xb8, 0, 0, 0, 0, 0, 0, 0, 0, 0, 0, (i >> 8) as u8, i as u8]) } else { WIp::V4([10, 1, (i >> 8) as u8, i as u8]) },
        port: 10_000 + i as u16,
    }
}

/// What the member copy should look like once built (the intended state).
#[derive(Clone, Debug)]
pub struct MemberModel {
    pub id: WId,
    pub gc: u64,
    pub max: u64,
    pub heartbeat: u64,
    /// version-ordered entries
    pub entries: Vec<WKv>,
}

pub fn member_model(i: usize, m: &MemberSpec) -> MemberModel {
    let id = member_id(i, m);
    let mut version = 0u64;
    let mut seen = std::collections::HashSet::new();
    let mut entries: Vec<WKv> = Vec::new();
    for e in &m.entries {
        let key = key_string(e);
        if !seen.insert(key.clone()) {
            continue;
        }
        version += e.gap.max(1) as u64;
        entries.push(WKv { key, value: if e.status == 1 { String::new() } else { e.val.expand() }, version, status: e.status });
    }
    let last = version;
    let max = last + m.extra_max as u64;
    let gc = match m.gc_mode {
        0 => 0,
        1 => entries.first().map(|e| e.version - 1).unwrap_or(0),
        2 => entries.get(entries.len() / 2).map(|e| e.version).unwrap_or(0),
        _ => max + 2,
    };
    for e in entries.iter_mut() {
        if e.version <= gc && e.status != 0 {
            e.status = 0;
            if e.value.is_empty() {
                e.value = "x".into();
            }
        }
    }
    MemberModel { id, gc, max, heartbeat: m.heartbeat as u64 + 1, entries }
}

pub struct BuiltState {
    pub node: Chitchat,
    pub self_id: ChitchatId,
    pub members: Vec<MemberModel>,
    /// Number of leading members that are scheduled for deletion on this node.
    pub aged: usize,
}

pub const GRACE_NS: u64 = 3_600_000_000_000;

/// Builds the node. Returns Err(description) if an honest-form message was not applied as the
/// wire format / admission rules specify (which the caller reports or counts).
pub async fn build_state(spec: &StateSpec, fd: &FdCfg) -> Result<BuiltState, String> {
    let self_id = simple_id("self", 1, 9000);
    let mut node = build_node(&self_id, "cluster", Duration::from_nanos(GRACE_NS), fd, false, 0).chitchat;
    // Own namespace.
    {
        let mut seen = std::collections::HashSet::new();
        for e in &spec.own {
            let key = key_string(e);
            if !seen.insert(key.clone()) {
                continue;
            }
            let ns = node.self_node_state();
            ns.set(&key, e.val.expand());
            match e.status {
                1 => ns.delete(&key),
                2 => ns.delete_after_ttl(&key),
                _ => {}
            }
        }
        if spec.own_gc {
            advance_ns(GRACE_NS + 1).await;
            node.verif_gc_keys_marked_for_deletion();
        }
    }
    let mut models = Vec::new();
    let aged = (spec.aged as usize).min(spec.members.len());
    for (i, m) in spec.members.iter().enumerate() {
        if i == aged && aged > 0 {
            node.verif_update_nodes_liveness();
            advance_ns(fd.dead_grace_ms * 1_000_000 / 2 + 1_000_000_000).await;
        }
        let model = member_model(i, m);
        // 1. introduce the member through a digest (heartbeat), as a SYN would.
        let syn = WMsg::Syn {
            cluster_id: "cluster".into(),
            digest: vec![WNodeDigest { id: model.id.clone(), heartbeat: model.heartbeat, last_gc: 0, max_version: 0 }],
        };
        let (bytes, _) = encode_msg(&syn, Blocking::Canonical);
        let (msg, _) = real_decode(&bytes).map_err(|e| format!("builder: SYN did not decode: {e}"))?;
        node.verif_process_message(msg);
        // 2. feed the entries in chunks of at most ~48 KB of ops.
        let mut from = 0u64;
        let mut idx = 0;
        let mut first = true;
        while idx < model.entries.len() || first {
            let mut ops = vec![WOp::Node { id: model.id.clone(), last_gc: model.gc, from_version: from }];
            let mut size = 0;
            let mut last_version = from;
            while idx < model.entries.len() && (size == 0 || size + op_len(&WOp::Kv(model.entries[idx].clone())) < 48_000) {
                let kv = model.entries[idx].clone();
                size += op_len(&WOp::Kv(kv.clone()));
                last_version = kv.version;
                ops.push(WOp::Kv(kv));
                idx += 1;
            }
            if ops.len() == 1 {
                if model.max > 0 {
                    ops.push(WOp::SetMax(model.max));
                    last_version = model.max;
                } else if model.gc == 0 {
                    break;
                }
            }
            let (bytes, _) = encode_msg(&WMsg::Ack { ops }, Blocking::Canonical);
            let (msg, _) = real_decode(&bytes).map_err(|e| format!("builder: ACK did not decode: {e}"))?;
            node.verif_process_message(msg);
            from = last_version;
            first = false;
            if idx >= model.entries.len() {
                break;
            }
        }
        if from < model.max {
            let ops = vec![WOp::Node { id: model.id.clone(), last_gc: model.gc, from_version: from }, WOp::SetMax(model.max)];
            let (bytes, _) = encode_msg(&WMsg::Ack { ops }, Blocking::Canonical);
            let (msg, _) = real_decode(&bytes).map_err(|e| format!("builder: ACK did not decode: {e}"))?;
            node.verif_process_message(msg);
        }
        let mut model = model;
        if m.catchup_tombstone && model.gc >= 1 && !model.entries.iter().any(|e| e.version == model.gc) {
            // supplied state = current entries + a tombstone at the watermark (key not otherwise
            // used) + max version one higher, watermark 0 (the peer has not collected anything)
            let now = tokio::time::Instant::now();
            let rid = model.id.to_real();
            let tomb = WKv { key: "zz-collected-elsewhere".to_string(), value: String::new(), version: model.gc, status: 1 };
            let mut supplied: Vec<(String, chitchat::VersionedValue)> = model
                .entries
                .iter()
                .map(|e| {
                    let status = match e.status {
                        0 => chitchat::DeletionStatus::Set,
                        1 => chitchat::DeletionStatus::Deleted(now),
                        _ => chitchat::DeletionStatus::DeleteAfterTtl(now),
                    };
                    (e.key.clone(), chitchat::VersionedValue { value: e.value.clone(), version: e.version, status })
                })
                .collect();
            supplied.push((tomb.key.clone(), chitchat::VersionedValue { value: String::new(), version: tomb.version, status: chitchat::DeletionStatus::Deleted(now) }));
            let new_max = model.max.max(model.gc) + 1;
            node.reset_node_state_if_update(&rid, supplied.into_iter(), new_max, 0);
            if node.node_state(&rid).map(|ns| ns.max_version()) == Some(new_max) {
                model.max = new_max;
                model.entries.push(tomb);
                model.entries.sort_by_key(|e| e.version);
            }
        }
        // Verify through the public getters.
        let rid = model.id.to_real();
        let Some(ns) = node.node_state(&rid) else {
            return Err(format!("builder: member {i} absent after introduction"));
        };
        if ns.max_version() != model.max || ns.last_gc_version() != model.gc {
            return Err(format!("builder: member {i} frontier ({}, {}) != intended ({}, {})", ns.last_gc_version(), ns.max_version(), model.gc, model.max));
        }
        let got: Vec<(String, u64, u8, usize)> = {
            let mut v: Vec<_> = ns.key_values_including_deleted().map(|(k, vv)| (k.to_string(), vv.version, status_code(&vv.status), vv.value.len())).collect();
            v.sort_by_key(|e| e.1);
            v
        };
        let want: Vec<(String, u64, u8, usize)> = model.entries.iter().map(|e| (e.key.clone(), e.version, e.status, e.value.len())).collect();
        if got != want {
            return Err(format!("builder: member {i} entries differ: got {} entries, want {}", got.len(), want.len()));
        }
        models.push(model);
    }
    if aged > 0 && aged == spec.members.len() {
        node.verif_update_nodes_liveness();
        advance_ns(fd.dead_grace_ms * 1_000_000 / 2 + 1_000_000_000).await;
    }
    Ok(BuiltState { node, self_id, members: models, aged })
}

/// Reads any copy held by the node into a model (version-ordered entries).
pub fn read_copy(node: &Chitchat, id: &ChitchatId) -> Option<MemberModel> {
    let ns = node.node_state(id)?;
    let mut entries: Vec<WKv> = ns
        .key_values_including_deleted()
        .map(|(k, vv)| WKv { key: k.to_string(), value: vv.value.clone(), version: vv.version, status: status_code(&vv.status) })
        .collect();
    entries.sort_by_key(|e| e.version);
    Some(MemberModel { id: WId::from_real(id), gc: ns.last_gc_version(), max: ns.max_version(), heartbeat: ns.heartbeat().into(), entries })
}

pub fn all_copies(node: &Chitchat) -> BTreeMap<WId, MemberModel> {
    node.node_states().keys().filter_map(|id| read_copy(node, id).map(|m| (WId::from_real(id), m))).collect()
}

// ------------------------------------------------------------------------------------------
// Strategies

pub fn val_strategy(max_len: u32) -> impl Strategy<Value = Val> {
    let len = prop_oneof![
        6 => 0u32..40,
        3 => 40u32..2_000,
        2 => 2_000u32..20_000,
        1 => 20_000u32..=65_000,
    ];
    (prop_oneof![Just(1u8), Just(2u8), Just(3u8), Just(4u8), Just(4u8)], len, any::<u16>())
        .prop_map(move |(class, len, seed)| Val { class, len: len.min(max_len), seed })
}

pub fn entry_strategy(max_val: u32) -> BoxedStrategy<EntrySpec> {
    let normal = entry_strategy_normal(max_val);
    if max_val < 60_000 {
        return normal.boxed();
    }
    // An entry whose key and value are each legal strings but which can never fit a datagram
    // (key + value above 65,521 bytes): it must block the member's later versions, not be skipped.
    let oversize = (0u16..400, 900u16..3000, 63_000u32..=65_000, any::<u16>(), 1u8..3).prop_map(|(key_idx, key_pad, len, seed, gap)| EntrySpec { key_idx, key_pad, val: Val { class: 4, len, seed }, status: 0, gap });
    prop_oneof![40 => normal, 1 => oversize].boxed()
}

fn entry_strategy_normal(max_val: u32) -> impl Strategy<Value = EntrySpec> {
    (
        prop_oneof![30 => 0u16..400, 1 => Just(0xFFFFu16)],
        prop_oneof![12 => Just(0u16), 3 => 1u16..200, 1 => 200u16..3000],
        val_strategy(max_val),
        prop_oneof![6 => Just(0u8), 2 => Just(1u8), 1 => Just(2u8)],
        prop_oneof![8 => Just(1u8), 2 => 2u8..5],
    )
        .prop_map(|(key_idx, key_pad, val, status, gap)| EntrySpec { key_idx, key_pad, val, status, gap })
}

pub fn member_strategy(max_entries: usize, max_val: u32) -> impl Strategy<Value = MemberSpec> {
    (
        any::<bool>(),
        prop_oneof![10 => Just(0u16), 2 => 5u16..60, 1 => 60u16..600],
        0u32..1000,
        prop_oneof![5 => Just(0u8), 2 => Just(1u8), 2 => Just(2u8), 1 => Just(3u8)],
        proptest::collection::vec(entry_strategy(max_val), 0..=max_entries),
        prop_oneof![6 => Just(0u8), 2 => 1u8..4],
        prop_oneof![4 => Just(false), 1 => Just(true)],
    )
        .prop_map(|(ipv6, node_id_len, heartbeat, gc_mode, entries, extra_max, catchup_tombstone)| MemberSpec { ipv6, node_id_len, heartbeat, gc_mode, entries, extra_max, catchup_tombstone })
}

/// Size classes: `small` (many members, tiny entries), `wide` (few members, many keys),
/// `heavy` (few members, large poorly compressible values => truncation).
pub fn state_strategy() -> impl Strategy<Value = StateSpec> {
    let small = (
        proptest::collection::vec(entry_strategy(60), 0..12),
        any::<bool>(),
        proptest::collection::vec(member_strategy(6, 60), 0..40),
    );
    let wide = (
        proptest::collection::vec(entry_strategy(300), 0..300),
        any::<bool>(),
        proptest::collection::vec(member_strategy(120, 300), 0..4),
    );
    let heavy = (
        proptest::collection::vec(entry_strategy(65_000), 0..8),
        any::<bool>(),
        proptest::collection::vec(member_strategy(8, 40_000), 0..5),
    );
    // `bulky`: hundreds of large, highly compressible values: a reply of a few KB whose op stream
    // is several megabytes.
    let bulky = (
        proptest::collection::vec((0u16..400, 20_000u32..60_000, any::<u16>()).prop_map(|(key_idx, len, seed)| EntrySpec { key_idx, key_pad: 0, val: Val { class: 1, len, seed }, status: 0, gap: 1 }), 100..350),
        Just(false),
        Just(Vec::<MemberSpec>::new()),
    );
    (prop_oneof![30 => small, 20 => wide, 40 => heavy, 1 => bulky], prop_oneof![5 => Just(0u8), 1 => 1u8..4])
        .prop_map(|((own, own_gc, members), aged)| StateSpec { own, own_gc, members, aged })
}
