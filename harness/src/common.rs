//! Shared infrastructure: tiers, seeds, sharded proptest runner, tallies, evidence, known
//! findings, panic capture, replay files.

use std::cell::RefCell;
use std::collections::{BTreeMap, HashSet};
use std::fmt::Debug;
use std::panic::{catch_unwind, AssertUnwindSafe};
use std::sync::atomic::{AtomicBool, Ordering};
use std::sync::Mutex;
use std::time::Instant;

use proptest::strategy::Strategy;
use proptest::test_runner::{Config, RngAlgorithm, TestCaseError, TestError, TestRng, TestRunner};
use serde::de::DeserializeOwned;
use serde::Serialize;
use serde_json::{json, Value};

/// Root of the verification tree. `VERIF_OUT_DIR` redirects run-time outputs (evidence,
/// replays) for scratch runs (sensitivity experiments); inputs always come from /verif.
/// Root of the verification tree: where `check` lives (exported by it as VERIF_ROOT), else /verif.
pub fn verif_dir() -> String {
    std::env::var("VERIF_ROOT").unwrap_or_else(|_| "/verif".to_string())
}

pub fn out_dir() -> String {
    std::env::var("VERIF_OUT_DIR").unwrap_or_else(|_| verif_dir())
}

#[derive(Clone, Copy, PartialEq, Eq, Debug)]
pub enum Tier {
    Quick,
    Thorough,
}

impl Tier {
    pub fn name(self) -> &'static str {
        match self {
            Tier::Quick => "quick",
            Tier::Thorough => "thorough",
        }
    }
    /// Picks the quick or thorough value.
    pub fn pick<T>(self, quick: T, thorough: T) -> T {
        match self {
            Tier::Quick => quick,
            Tier::Thorough => thorough,
        }
    }
}

#[derive(Clone, Debug)]
pub struct KnownFinding {
    pub id: String,
    pub property: String,
    pub status: String,
    pub signature: String,
    pub what: String,
}

pub struct Ctx {
    pub prop: String,
    pub tier: Tier,
    pub seed: u64,
    pub shards: usize,
    pub known: Vec<KnownFinding>,
    /// Scale factor on case counts (env VERIF_SCALE, default 1.0); used for smoke runs.
    pub scale: f64,
}

impl Ctx {
    pub fn cases(&self, quick: u64, thorough: u64) -> u64 {
        let n = self.tier.pick(quick, thorough) as f64 * self.scale;
        (n as u64).max(self.shards as u64)
    }
    pub fn known_signature(&self, signature: &str) -> Option<&KnownFinding> {
        self.known
            .iter()
            .find(|k| k.status == "known" && k.property == self.prop && k.signature == signature)
    }
}

/// Properties whose code under test parses attacker-controlled bytes: the case being evaluated
/// is kept on disk so that a process abort can be attributed (see `check`).
pub fn inflight_enabled(prop: &str) -> bool {
    matches!(prop, "C08" | "C09")
}

pub fn load_known_findings() -> Vec<KnownFinding> {
    let path = format!("{}/known_findings.json", verif_dir());
    let Ok(text) = std::fs::read_to_string(&path) else {
        return Vec::new();
    };
    let Ok(value) = serde_json::from_str::<Value>(&text) else {
        eprintln!("warning: {path} is not valid JSON; ignoring");
        return Vec::new();
    };
    let mut out = Vec::new();
    if let Some(list) = value.get("findings").and_then(|v| v.as_array()) {
        for f in list {
            let g = |k: &str| f.get(k).and_then(|v| v.as_str()).unwrap_or("").to_string();
            out.push(KnownFinding {
                id: g("id"),
                property: g("property"),
                status: g("status"),
                signature: g("signature"),
                what: g("what"),
            });
        }
    }
    out
}

pub fn splitmix64(mut x: u64) -> u64 {
    x = x.wrapping_add(0x9E3779B97F4A7C15);
    let mut z = x;
    z = (z ^ (z >> 30)).wrapping_mul(0xBF58476D1CE4E5B9);
    z = (z ^ (z >> 27)).wrapping_mul(0x94D049BB133111EB);
    z ^ (z >> 31)
}

pub fn fnv64(bytes: &[u8]) -> u64 {
    let mut h: u64 = 0xcbf29ce484222325;
    for b in bytes {
        h ^= *b as u64;
        h = h.wrapping_mul(0x100000001b3);
    }
    h
}

pub fn str_hash(s: &str) -> u64 {
    fnv64(s.as_bytes())
}

pub fn derive_seed(seed: u64, prop: &str, sub: &str, shard: usize) -> [u8; 32] {
    let mut x = splitmix64(seed ^ fnv64(prop.as_bytes()));
    x = splitmix64(x ^ fnv64(sub.as_bytes()));
    x = splitmix64(x ^ (shard as u64).wrapping_mul(0xA24BAED4963EE407));
    let mut out = [0u8; 32];
    for i in 0..4 {
        x = splitmix64(x);
        out[i * 8..i * 8 + 8].copy_from_slice(&x.to_le_bytes());
    }
    out
}

/// Maps a 16-bit selector monotonically onto 0..len (len > 0).
pub fn pick_idx(sel: u16, len: usize) -> usize {
    debug_assert!(len > 0);
    ((sel as usize) * len) >> 16
}

// ---------------------------------------------------------------------------------------------
// Failures and tallies

#[derive(Clone, Debug)]
pub struct Failure {
    /// Root-cause key used for known-finding matching.
    pub signature: String,
    pub message: String,
    pub detail: Value,
}

impl Failure {
    pub fn new(signature: impl Into<String>, message: impl Into<String>) -> Failure {
        Failure {
            signature: signature.into(),
            message: message.into(),
            detail: Value::Null,
        }
    }
    pub fn with_detail(mut self, detail: Value) -> Failure {
        self.detail = detail;
        self
    }
}

#[derive(Default, Clone)]
pub struct Tally {
    pub evaluations: u64,
    pub labels: BTreeMap<String, u64>,
    pub sums: BTreeMap<String, u64>,
    pub maxes: BTreeMap<String, u64>,
    pub nontrivial: HashSet<u64>,
    pub samples: Vec<Value>,
    pub excluded_known: BTreeMap<String, u64>,
    /// Cases discarded (e.g. aborted by a panic that is another property's business).
    pub discarded: BTreeMap<String, u64>,
}

pub const MAX_SAMPLES: usize = 4;

impl Tally {
    pub fn label(&mut self, l: &str) {
        *self.labels.entry(l.to_string()).or_insert(0) += 1;
    }
    pub fn label_n(&mut self, l: &str, n: u64) {
        if n > 0 {
            *self.labels.entry(l.to_string()).or_insert(0) += n;
        }
    }
    pub fn sum(&mut self, k: &str, n: u64) {
        *self.sums.entry(k.to_string()).or_insert(0) += n;
    }
    pub fn max(&mut self, k: &str, n: u64) {
        let e = self.maxes.entry(k.to_string()).or_insert(0);
        if n > *e {
            *e = n;
        }
    }
    pub fn nontrivial(&mut self, fingerprint: u64) {
        self.nontrivial.insert(fingerprint);
    }
    pub fn sample(&mut self, v: impl FnOnce() -> Value) {
        if self.samples.len() < MAX_SAMPLES {
            self.samples.push(v());
        }
    }
    pub fn discard(&mut self, why: &str) {
        *self.discarded.entry(why.to_string()).or_insert(0) += 1;
    }
    pub fn exclude_known(&mut self, signature: &str) {
        *self.excluded_known.entry(signature.to_string()).or_insert(0) += 1;
    }
    pub fn merge(&mut self, other: Tally) {
        self.evaluations += other.evaluations;
        for (k, v) in other.labels {
            *self.labels.entry(k).or_insert(0) += v;
        }
        for (k, v) in other.sums {
            *self.sums.entry(k).or_insert(0) += v;
        }
        for (k, v) in other.maxes {
            let e = self.maxes.entry(k).or_insert(0);
            if v > *e {
                *e = v;
            }
        }
        for (k, v) in other.excluded_known {
            *self.excluded_known.entry(k).or_insert(0) += v;
        }
        for (k, v) in other.discarded {
            *self.discarded.entry(k).or_insert(0) += v;
        }
        self.nontrivial.extend(other.nontrivial);
        for s in other.samples {
            if self.samples.len() < MAX_SAMPLES {
                self.samples.push(s);
            }
        }
    }
}

// ---------------------------------------------------------------------------------------------
// Panic capture

thread_local! {
    static LAST_PANIC: RefCell<Option<PanicInfo>> = const { RefCell::new(None) };
    static QUIET_PANICS: RefCell<bool> = const { RefCell::new(false) };
}

#[derive(Clone, Debug)]
pub struct PanicInfo {
    pub file: String,
    pub line: u32,
    pub message: String,
}

impl PanicInfo {
    /// Signature: file + normalised message (digits removed so that values do not split causes).
    pub fn signature(&self) -> String {
        let file = self.file.rsplit('/').next().unwrap_or(&self.file);
        let norm: String = self
            .message
            .chars()
            .map(|c| if c.is_ascii_digit() { '#' } else { c })
            .collect();
        let norm: String = norm.chars().take(36).collect();
        format!("panic:{file}:{norm}")
    }
    pub fn describe(&self) -> String {
        format!("panic at {}:{}: {}", self.file, self.line, self.message)
    }
}

pub fn install_panic_hook() {
    let default_hook = std::panic::take_hook();
    std::panic::set_hook(Box::new(move |info| {
        let (file, line) = info
            .location()
            .map(|l| (l.file().to_string(), l.line()))
            .unwrap_or_default();
        let message = if let Some(s) = info.payload().downcast_ref::<&str>() {
            s.to_string()
        } else if let Some(s) = info.payload().downcast_ref::<String>() {
            s.clone()
        } else {
            "<non-string panic payload>".to_string()
        };
        let quiet = QUIET_PANICS.with(|q| *q.borrow());
        LAST_PANIC.with(|p| {
            *p.borrow_mut() = Some(PanicInfo {
                file,
                line,
                message,
            })
        });
        if !quiet {
            default_hook(info);
        }
    }));
}

/// Sets the thread's quiet-panics flag, returning the previous value.
pub fn set_quiet_panics(quiet: bool) -> bool {
    QUIET_PANICS.with(|q| std::mem::replace(&mut *q.borrow_mut(), quiet))
}

/// Runs `f`, turning a panic into `Err(PanicInfo)`. Panics are silent while guarded.
pub fn guard<T>(f: impl FnOnce() -> T) -> Result<T, PanicInfo> {
    let prev = QUIET_PANICS.with(|q| std::mem::replace(&mut *q.borrow_mut(), true));
    let r = catch_unwind(AssertUnwindSafe(f));
    QUIET_PANICS.with(|q| *q.borrow_mut() = prev);
    match r {
        Ok(v) => Ok(v),
        Err(_) => Err(LAST_PANIC.with(|p| p.borrow_mut().take()).unwrap_or(PanicInfo {
            file: "?".into(),
            line: 0,
            message: "?".into(),
        })),
    }
}

// ---------------------------------------------------------------------------------------------
// Results

#[derive(Debug, Clone)]
pub struct Violation {
    pub signature: String,
    pub message: String,
    pub replay_path: String,
}

#[derive(Default)]
pub struct SubResult {
    pub sub: String,
    pub tally: Tally,
    pub violations: Vec<Violation>,
    pub inconclusive: Vec<String>,
    pub exhaustive: bool,
    pub scope: String,
}

pub fn write_replay<C: Serialize>(ctx: &Ctx, sub: &str, case: &C, failure: &Failure) -> String {
    let case_json = serde_json::to_value(case).unwrap_or(Value::Null);
    let text = serde_json::to_string(&case_json).unwrap_or_default();
    let h = fnv64(format!("{sub}|{text}").as_bytes());
    let dir = format!("{}/replays", out_dir());
    let _ = std::fs::create_dir_all(&dir);
    let path = format!("{dir}/{}-{h:016x}.json", ctx.prop);
    let doc = json!({
        "property": ctx.prop,
        "sub": sub,
        "seed": ctx.seed,
        "tier": ctx.tier.name(),
        "signature": failure.signature,
        "message": failure.message,
        "detail": failure.detail,
        "case": case_json,
    });
    let _ = std::fs::write(&path, serde_json::to_string_pretty(&doc).unwrap_or_default());
    path
}

/// Sharded proptest run. `exec` evaluates one case, updating the per-case tally, and returns
/// `Err(Failure)` when the property is violated on that case.
pub fn run_proptest<C, S, F>(
    ctx: &Ctx,
    sub: &str,
    total_cases: u64,
    max_shrink_iters: u32,
    make_strategy: impl Fn() -> S + Sync,
    exec: F,
) -> SubResult
where
    C: Debug + Clone + Serialize + Send,
    S: Strategy<Value = C>,
    F: Fn(&C, &mut Tally) -> Result<(), Failure> + Sync,
{
    let shards = ctx.shards.max(1);
    let per_shard = ((total_cases + shards as u64 - 1) / shards as u64).max(1) as u32;
    let merged: Mutex<(Tally, Vec<Violation>, Vec<String>)> =
        Mutex::new((Tally::default(), Vec::new(), Vec::new()));
    let stop_all = AtomicBool::new(false);

    std::thread::scope(|scope| {
        for shard in 0..shards {
            let merged = &merged;
            let exec = &exec;
            let make_strategy = &make_strategy;
            let stop_all = &stop_all;
            scope.spawn(move || {
                let seed = derive_seed(ctx.seed, &ctx.prop, sub, shard);
                let config = Config {
                    cases: per_shard,
                    failure_persistence: None,
                    max_shrink_iters,
                    max_global_rejects: 1_000_000,
                    ..Config::default()
                };
                let mut runner = TestRunner::new_with_rng(
                    config,
                    TestRng::from_seed(RngAlgorithm::ChaCha, &seed),
                );
                let strategy = make_strategy();
                let inflight_path = if inflight_enabled(&ctx.prop) {
                    let dir = format!("{}/inflight", out_dir());
                    let _ = std::fs::create_dir_all(&dir);
                    Some(format!("{dir}/{}-{sub}-{shard}.json", ctx.prop))
                } else {
                    None
                };
                let tally = RefCell::new(Tally::default());
                let failed = std::cell::Cell::new(false);
                let harness_errors: RefCell<Vec<String>> = RefCell::new(Vec::new());
                let result = runner.run(&strategy, |case| {
                    if stop_all.load(Ordering::Relaxed) && !failed.get() {
                        // Another shard already found a violation: wind down quickly.
                        return Ok(());
                    }
                    let mut local = Tally::default();
                    if let Some(path) = &inflight_path {
                        // Crash isolation: if the code under test aborts the process (not a panic:
                        // e.g. an allocation of an attacker-chosen size), the `check` wrapper
                        // finds the case that was being evaluated here and replays it alone.
                        let doc = json!({"property": ctx.prop, "sub": sub, "seed": ctx.seed, "tier": ctx.tier.name(), "signature": format!("{}/process-abort", ctx.prop), "message": "the process was aborted while this case was being evaluated", "case": serde_json::to_value(&case).unwrap_or(Value::Null)});
                        let _ = std::fs::write(path, serde_json::to_vec(&doc).unwrap_or_default());
                    }
                    let r = guard(|| exec(&case, &mut local));
                    match r {
                        Ok(Ok(())) => {
                            if !failed.get() {
                                local.evaluations += 1;
                                tally.borrow_mut().merge(local);
                            }
                            Ok(())
                        }
                        Ok(Err(failure)) => {
                            if ctx.known_signature(&failure.signature).is_some() {
                                if !failed.get() {
                                    local.evaluations += 1;
                                    local.exclude_known(&failure.signature);
                                    tally.borrow_mut().merge(local);
                                }
                                Ok(())
                            } else {
                                failed.set(true);
                                Err(TestCaseError::fail(failure.signature))
                            }
                        }
                        Err(panic) => {
                            // A panic that escaped the harness's own guards: harness error.
                            harness_errors.borrow_mut().push(panic.describe());
                            failed.set(true);
                            Err(TestCaseError::fail(format!("harness-panic:{}", panic.describe())))
                        }
                    }
                });
                let mut violations = Vec::new();
                let mut inconclusive = Vec::new();
                match result {
                    Ok(()) => {}
                    Err(TestError::Fail(_reason, minimal)) => {
                        stop_all.store(true, Ordering::Relaxed);
                        // Re-evaluate the minimal case to obtain the failure details. Sub-checks
                        // whose system under test draws from hash-randomised sets (the server's
                        // peer selection) get several attempts: there a defect shows up in a
                        // fraction of the runs of one case, a correct tree in none.
                        let attempts = if sub == "server-round-targets" { 40 } else { 1 };
                        let mut outcome = {
                            let mut scratch = Tally::default();
                            guard(|| exec(&minimal, &mut scratch))
                        };
                        for _ in 1..attempts {
                            if matches!(outcome, Ok(Err(_))) {
                                break;
                            }
                            let mut scratch = Tally::default();
                            outcome = guard(|| exec(&minimal, &mut scratch));
                        }
                        match outcome {
                            Ok(Err(failure)) => {
                                let path = write_replay(ctx, sub, &minimal, &failure);
                                violations.push(Violation {
                                    signature: failure.signature.clone(),
                                    message: failure.message.clone(),
                                    replay_path: path,
                                });
                            }
                            Ok(Ok(())) => {
                                inconclusive.push(format!(
                                    "shard {shard}: minimal case did not reproduce (flaky oracle?)"
                                ));
                            }
                            Err(panic) => {
                                inconclusive.push(format!(
                                    "shard {shard}: harness panic: {}",
                                    panic.describe()
                                ));
                            }
                        }
                    }
                    Err(TestError::Abort(reason)) => {
                        inconclusive.push(format!("shard {shard}: proptest aborted: {reason}"));
                    }
                }
                if let Some(path) = &inflight_path {
                    let _ = std::fs::remove_file(path);
                }
                let mut m = merged.lock().unwrap();
                m.0.merge(tally.into_inner());
                m.1.extend(violations);
                m.2.extend(inconclusive);
            });
        }
    });
    let (tally, violations, inconclusive) = merged.into_inner().unwrap();
    SubResult {
        sub: sub.to_string(),
        tally,
        violations,
        inconclusive,
        exhaustive: false,
        scope: String::new(),
    }
}

/// Replays one stored case through `exec`.
pub fn replay_case<C, F>(ctx: &Ctx, sub: &str, case_json: &Value, exec: F) -> SubResult
where
    C: DeserializeOwned + Serialize + Debug,
    F: Fn(&C, &mut Tally) -> Result<(), Failure>,
{
    let mut res = SubResult {
        sub: sub.to_string(),
        ..Default::default()
    };
    let case: C = match serde_json::from_value(case_json.clone()) {
        Ok(c) => c,
        Err(e) => {
            res.inconclusive.push(format!("cannot parse replay case: {e}"));
            return res;
        }
    };
    let mut tally = Tally::default();
    // (the server's peer selection draws from hash-randomised sets: a defect shows up in a fraction
    // of the runs of one case, so that sub-check's replays are repeated)
    let attempts = if sub == "server-round-targets" { 40 } else { 1 };
    let mut outcome = guard(|| exec(&case, &mut tally));
    for _ in 1..attempts {
        if !matches!(outcome, Ok(Ok(()))) {
            break;
        }
        outcome = guard(|| exec(&case, &mut tally));
    }
    match outcome {
        Ok(Ok(())) => {
            tally.evaluations += 1;
        }
        Ok(Err(failure)) => {
            tally.evaluations += 1;
            if ctx.known_signature(&failure.signature).is_some() {
                tally.exclude_known(&failure.signature);
            } else {
                let path = write_replay(ctx, sub, &case, &failure);
                println!("replay failure: {} :: {}", failure.signature, failure.message);
                res.violations.push(Violation {
                    signature: failure.signature,
                    message: failure.message,
                    replay_path: path,
                });
            }
        }
        Err(panic) => res.inconclusive.push(format!("harness panic: {}", panic.describe())),
    }
    res.tally = tally;
    res
}

/// Parallel enumeration helper: splits `0..total` into chunks handled by `shards` threads.
/// `exec(index, &mut Tally)` returns Err on violation; the first violation per thread stops it.
pub fn run_enumeration<F>(ctx: &Ctx, sub: &str, total: u64, exec: F) -> SubResult
where
    F: Fn(u64, &mut Tally) -> Result<(), (Failure, Value)> + Sync,
{
    let shards = ctx.shards.max(1) as u64;
    let merged: Mutex<(Tally, Vec<Violation>, Vec<String>)> =
        Mutex::new((Tally::default(), Vec::new(), Vec::new()));
    let stop_all = AtomicBool::new(false);
    std::thread::scope(|scope| {
        for shard in 0..shards {
            let merged = &merged;
            let exec = &exec;
            let stop_all = &stop_all;
            scope.spawn(move || {
                let mut tally = Tally::default();
                let mut violations = Vec::new();
                let mut inconclusive = Vec::new();
                let mut idx = shard;
                while idx < total {
                    if stop_all.load(Ordering::Relaxed) {
                        break;
                    }
                    let mut local = Tally::default();
                    match guard(|| exec(idx, &mut local)) {
                        Ok(Ok(())) => {
                            local.evaluations += 1;
                            tally.merge(local);
                        }
                        Ok(Err((failure, case))) => {
                            if ctx.known_signature(&failure.signature).is_some() {
                                local.evaluations += 1;
                                local.exclude_known(&failure.signature);
                                tally.merge(local);
                            } else {
                                stop_all.store(true, Ordering::Relaxed);
                                let path = write_replay(ctx, sub, &case, &failure);
                                violations.push(Violation {
                                    signature: failure.signature,
                                    message: failure.message,
                                    replay_path: path,
                                });
                                break;
                            }
                        }
                        Err(panic) => {
                            inconclusive.push(format!("harness panic: {}", panic.describe()));
                            break;
                        }
                    }
                    idx += shards;
                }
                let mut m = merged.lock().unwrap();
                m.0.merge(tally);
                m.1.extend(violations);
                m.2.extend(inconclusive);
            });
        }
    });
    let (tally, violations, inconclusive) = merged.into_inner().unwrap();
    SubResult {
        sub: sub.to_string(),
        tally,
        violations,
        inconclusive,
        exhaustive: false,
        scope: String::new(),
    }
}

// ---------------------------------------------------------------------------------------------
// Evidence and reporting

pub struct Report {
    pub rule: String,
    pub assumptions: Vec<String>,
    pub subs: Vec<SubResult>,
    pub extra: BTreeMap<String, Value>,
}

impl Report {
    pub fn new(rule: &str) -> Report {
        Report {
            rule: rule.to_string(),
            assumptions: Vec::new(),
            subs: Vec::new(),
            extra: BTreeMap::new(),
        }
    }
    pub fn assume(&mut self, s: &str) {
        self.assumptions.push(s.to_string());
    }
    pub fn push(&mut self, sub: SubResult) {
        self.subs.push(sub);
    }
}

fn truncate_json(v: &Value, max_str: usize, max_arr: usize) -> Value {
    match v {
        Value::String(s) => {
            if s.len() > max_str {
                let cut: String = s.chars().take(max_str).collect();
                Value::String(format!("{cut}…(+{} bytes)", s.len() - cut.len()))
            } else {
                v.clone()
            }
        }
        Value::Array(a) => {
            let mut out: Vec<Value> = a
                .iter()
                .take(max_arr)
                .map(|x| truncate_json(x, max_str, max_arr))
                .collect();
            if a.len() > max_arr {
                out.push(Value::String(format!("…(+{} more items)", a.len() - max_arr)));
            }
            Value::Array(out)
        }
        Value::Object(o) => Value::Object(
            o.iter()
                .map(|(k, x)| (k.clone(), truncate_json(x, max_str, max_arr)))
                .collect(),
        ),
        _ => v.clone(),
    }
}

/// Writes the evidence file, prints the result lines and returns the process exit code.
pub fn finish(ctx: &Ctx, report: Report, started: Instant) -> i32 {
    let wall_s = started.elapsed().as_secs_f64();
    let mut evaluations = 0u64;
    let mut nontrivial: HashSet<(usize, u64)> = HashSet::new();
    let mut samples: Vec<Value> = Vec::new();
    let mut classes: BTreeMap<String, Value> = BTreeMap::new();
    let mut excluded: BTreeMap<String, u64> = BTreeMap::new();
    let mut discarded: BTreeMap<String, u64> = BTreeMap::new();
    let mut violations: Vec<Violation> = Vec::new();
    let mut inconclusive: Vec<String> = Vec::new();
    let mut sub_summaries: Vec<Value> = Vec::new();
    let mut all_exhaustive = !report.subs.is_empty();
    for (i, sub) in report.subs.iter().enumerate() {
        evaluations += sub.tally.evaluations;
        for f in &sub.tally.nontrivial {
            nontrivial.insert((i, *f));
        }
        for s in &sub.tally.samples {
            if samples.len() < 8 {
                samples.push(json!({"sub": sub.sub, "case": truncate_json(s, 160, 40)}));
            }
        }
        let mut m = serde_json::Map::new();
        for (k, v) in &sub.tally.labels {
            m.insert(k.clone(), json!(v));
        }
        for (k, v) in &sub.tally.sums {
            m.insert(format!("sum:{k}"), json!(v));
        }
        for (k, v) in &sub.tally.maxes {
            m.insert(format!("max:{k}"), json!(v));
        }
        classes.insert(sub.sub.clone(), Value::Object(m));
        for (k, v) in &sub.tally.excluded_known {
            *excluded.entry(k.clone()).or_insert(0) += v;
        }
        for (k, v) in &sub.tally.discarded {
            *discarded.entry(k.clone()).or_insert(0) += v;
        }
        violations.extend(sub.violations.iter().cloned());
        inconclusive.extend(sub.inconclusive.iter().cloned());
        all_exhaustive &= sub.exhaustive;
        sub_summaries.push(json!({
            "sub": sub.sub,
            "evaluations": sub.tally.evaluations,
            "distinct_nontrivial": sub.tally.nontrivial.len(),
            "exhaustive": sub.exhaustive,
            "scope": sub.scope,
        }));
    }
    // Known findings observed in this run.
    for (sig, n) in &excluded {
        if let Some(k) = ctx.known_signature(sig) {
            println!(
                "KNOWN-FINDING: property={} {} [{}; signature {}; {} occurrences excluded in this run]",
                ctx.prop, k.what, k.id, sig, n
            );
        }
    }
    let discarded_total: u64 = discarded.values().sum();
    if discarded_total > 0 && evaluations > 0 && discarded_total * 10 > evaluations {
        inconclusive.push(format!(
            "{discarded_total} of {evaluations} cases were discarded ({discarded:?})"
        ));
    }
    let mut coverage = serde_json::Map::new();
    coverage.insert("evaluations".into(), json!(evaluations));
    coverage.insert("distinct_nontrivial".into(), json!(nontrivial.len()));
    coverage.insert("rule".into(), json!(report.rule));
    coverage.insert("samples".into(), Value::Array(samples));
    coverage.insert("exhaustive".into(), json!(all_exhaustive));
    coverage.insert("subchecks".into(), Value::Array(sub_summaries));
    coverage.insert("classes".into(), json!(classes));
    coverage.insert("excluded_known".into(), json!(excluded));
    coverage.insert("discarded".into(), json!(discarded));
    coverage.insert("inconclusive".into(), json!(inconclusive));
    coverage.insert("shards".into(), json!(ctx.shards));
    coverage.insert(
        "violation_signatures".into(),
        json!(violations.iter().map(|v| v.signature.clone()).collect::<Vec<_>>()),
    );
    for (k, v) in report.extra {
        coverage.insert(k, v);
    }
    let evidence = json!({
        "property_id": ctx.prop,
        "tier": ctx.tier.name(),
        "seed": ctx.seed,
        "level": "exploration",
        "coverage": Value::Object(coverage),
        "assumptions": report.assumptions,
        "wall_s": wall_s,
        "violations": violations.len(),
    });
    let dir = format!("{}/evidence", out_dir());
    let _ = std::fs::create_dir_all(&dir);
    let path = format!("{dir}/{}.json", ctx.prop);
    if let Err(e) = std::fs::write(&path, serde_json::to_string_pretty(&evidence).unwrap()) {
        eprintln!("cannot write evidence {path}: {e}");
    }
    println!(
        "property={} tier={} seed={} evaluations={} distinct_nontrivial={} excluded_known={} wall_s={:.1}",
        ctx.prop,
        ctx.tier.name(),
        ctx.seed,
        evaluations,
        nontrivial.len(),
        excluded.values().sum::<u64>(),
        wall_s
    );
    let mut seen = HashSet::new();
    for v in &violations {
        if seen.insert(v.signature.clone()) {
            println!("violation detail: {} :: {}", v.signature, v.message);
            println!("VIOLATION property={} replay={}", ctx.prop, v.replay_path);
        }
    }
    if !violations.is_empty() {
        return 1;
    }
    if !inconclusive.is_empty() {
        for i in &inconclusive {
            println!("INCONCLUSIVE property={} {}", ctx.prop, i);
        }
        return 2;
    }
    println!("OK property={}", ctx.prop);
    0
}
