//! Engine E6: peer selection (C17). Exhaustive over the subset structure of up to 6 addresses in
//! {peer, live, dead, seed} x scripted random generators.

use std::collections::HashSet;
use std::net::SocketAddr;

use chitchat::verif::verif_select_nodes_for_gossip;
use rand::rngs::StdRng;
use rand::SeedableRng;
use serde::{Deserialize, Serialize};
use serde_json::json;

use crate::common::*;

#[derive(Clone, Copy, Debug, PartialEq, Eq, Serialize, Deserialize)]
pub enum RngScript {
    Const32(u32),
    Counter(u32),
    /// Alternates between two values (e.g. 0 and MAX).
    Alternate(u32, u32),
    Seeded(u64),
}

pub struct ScriptRng {
    script: RngScript,
    n: u64,
    inner: Option<StdRng>,
}

impl ScriptRng {
    pub fn new(script: RngScript) -> Self {
        let inner = match script {
            RngScript::Seeded(s) => Some(StdRng::seed_from_u64(s)),
            _ => None,
        };
        ScriptRng { script, n: 0, inner }
    }
    fn next32(&mut self) -> u32 {
        self.n += 1;
        match self.script {
            RngScript::Const32(v) => v,
            RngScript::Counter(start) => start.wrapping_add((self.n - 1) as u32),
            RngScript::Alternate(a, b) => {
                if self.n % 2 == 1 {
                    a
                } else {
                    b
                }
            }
            RngScript::Seeded(_) => {
                use rand::Rng;
                self.inner.as_mut().unwrap().next_u32()
            }
        }
    }
}

impl rand::TryRng for ScriptRng {
    type Error = std::convert::Infallible;
    fn try_next_u32(&mut self) -> Result<u32, Self::Error> {
        Ok(self.next32())
    }
    fn try_next_u64(&mut self) -> Result<u64, Self::Error> {
        match self.script {
            RngScript::Seeded(_) => {
                use rand::Rng;
                self.n += 1;
                Ok(self.inner.as_mut().unwrap().next_u64())
            }
            RngScript::Const32(v) => {
                self.n += 1;
                // extreme values extend to 64 bits as extremes
                Ok(if v == u32::MAX { u64::MAX } else if v == 0 { 0 } else { ((v as u64) << 32) | v as u64 })
            }
            _ => {
                let hi = self.next32() as u64;
                let lo = self.next32() as u64;
                Ok((hi << 32) | lo)
            }
        }
    }
    fn try_fill_bytes(&mut self, dest: &mut [u8]) -> Result<(), Self::Error> {
        for chunk in dest.chunks_mut(4) {
            let v = self.next32().to_le_bytes();
            chunk.copy_from_slice(&v[..chunk.len()]);
        }
        Ok(())
    }
}

/// `structure[c]` = number of addresses whose membership mask is `c + 1`
/// (bit 0 peer, bit 1 live, bit 2 dead, bit 3 seed).
#[derive(Clone, Debug, Serialize, Deserialize)]
pub struct SelCase {
    pub structure: Vec<u8>,
    pub script: RngScript,
}

pub fn all_structures(max_total: u8) -> Vec<Vec<u8>> {
    fn rec(pos: usize, left: u8, cur: &mut Vec<u8>, out: &mut Vec<Vec<u8>>) {
        if pos == 15 {
            out.push(cur.clone());
            return;
        }
        for c in 0..=left {
            cur.push(c);
            rec(pos + 1, left - c, cur, out);
            cur.pop();
        }
    }
    let mut out = Vec::new();
    rec(0, max_total, &mut Vec::new(), &mut out);
    out
}

fn addr(i: usize) -> SocketAddr {
    SocketAddr::from(([10, 0, (i / 250) as u8, (i % 250) as u8 + 1], 7000 + i as u16))
}

pub fn exec_select(case: &SelCase, tally: &mut Tally) -> Result<(), Failure> {
    let mut peers = HashSet::new();
    let mut live = HashSet::new();
    let mut dead = HashSet::new();
    let mut seeds = HashSet::new();
    let mut i = 0;
    for (c, &count) in case.structure.iter().enumerate() {
        let mask = c + 1;
        for _ in 0..count {
            let a = addr(i);
            i += 1;
            if mask & 1 != 0 {
                peers.insert(a);
            }
            if mask & 2 != 0 {
                live.insert(a);
            }
            if mask & 4 != 0 {
                dead.insert(a);
            }
            if mask & 8 != 0 {
                seeds.insert(a);
            }
        }
    }
    let mut rng = ScriptRng::new(case.script);
    let res = guard(|| verif_select_nodes_for_gossip(&mut rng, peers.clone(), live.clone(), dead.clone(), seeds.clone()));
    let (nodes, dead_pick, seed_pick) = match res {
        Ok(r) => r,
        Err(p) => {
            return Err(Failure::new(format!("C17/{}", p.signature()), p.describe()));
        }
    };
    let f = |sig: &str, msg: String| Err(Failure::new(sig, format!("{msg}; peers={peers:?} live={live:?} dead={dead:?} seeds={seeds:?} -> nodes={nodes:?} dead_pick={dead_pick:?} seed_pick={seed_pick:?}")));
    let distinct: HashSet<&SocketAddr> = nodes.iter().collect();
    if distinct.len() != nodes.len() {
        return f("C17/duplicate-target", "selected peers are not distinct".into());
    }
    if nodes.len() > 3 {
        return f("C17/too-many", format!("{} peers selected (> 3)", nodes.len()));
    }
    let pool = if live.is_empty() { &peers } else { &live };
    if let Some(bad) = nodes.iter().find(|n| !pool.contains(n)) {
        return f("C17/outside-pool", format!("{bad} is not in the {} pool", if live.is_empty() { "peer" } else { "live" }));
    }
    if let Some(d) = dead_pick {
        if !dead.contains(&d) {
            return f("C17/dead-pick-outside", format!("dead pick {d} not in dead set"));
        }
    }
    if let Some(s) = seed_pick {
        if !seeds.contains(&s) {
            return f("C17/seed-pick-outside", format!("seed pick {s} not in seed set"));
        }
    }
    if live.is_empty() && !seeds.is_empty() {
        let reached = seed_pick.is_some() || nodes.iter().any(|n| seeds.contains(n));
        if !reached {
            return f("C17/isolated-no-seed", "no live peer, a seed exists, yet no seed is contacted".into());
        }
    }
    if dead.len() > live.len() && dead_pick.is_none() {
        return f("C17/no-dead-probe", "dead peers outnumber live ones yet no dead peer is contacted".into());
    }
    let corner = live.is_empty() || dead.len() > live.len() || seeds.is_empty() || dead.is_empty();
    if corner {
        tally.nontrivial(str_hash(&format!("{:?}", case)));
        if live.is_empty() {
            tally.label("no_live");
        }
        if dead.len() > live.len() {
            tally.label("dead_outnumber_live");
        }
        if seeds.is_empty() {
            tally.label("no_seed");
        }
    }
    if nodes.len() == 3 {
        tally.label("three_targets");
    }
    if i as u64 % 7 == 3 {
        tally.sample(|| json!({"structure": case.structure, "script": format!("{:?}", case.script), "nodes": nodes.len(), "dead_pick": dead_pick.is_some(), "seed_pick": seed_pick.is_some()}));
    }
    Ok(())
}

pub fn scripts(ctx: &Ctx) -> Vec<RngScript> {
    let mut v = vec![
        RngScript::Const32(0),
        RngScript::Const32(u32::MAX),
        RngScript::Const32(u32::MAX / 2),
        RngScript::Const32(1),
        RngScript::Counter(0),
        RngScript::Counter(u32::MAX - 3),
        RngScript::Alternate(0, u32::MAX),
        RngScript::Alternate(u32::MAX, 0),
    ];
    let n = ctx.tier.pick(8, 64);
    for i in 0..n {
        v.push(RngScript::Seeded(splitmix64(ctx.seed ^ (i as u64).wrapping_mul(0x51ED27))));
    }
    v
}

pub fn run(ctx: &Ctx, report: &mut Report) {
    let structures = all_structures(6);
    let scripts = scripts(ctx);
    let total = structures.len() as u64 * scripts.len() as u64;
    let mut sub = run_enumeration(ctx, "structures-x-scripts", total, |idx, tally| {
        let s = &structures[(idx / scripts.len() as u64) as usize];
        let script = scripts[(idx % scripts.len() as u64) as usize];
        let case = SelCase { structure: s.clone(), script };
        exec_select(&case, tally).map_err(|f| (f, serde_json::to_value(&case).unwrap()))
    });
    sub.exhaustive = true;
    sub.scope = format!(
        "all {} multiset structures of <= 6 addresses over the 15 non-empty membership combinations of {{peer, live, dead, seed}} x {} RNG scripts (constants 0/1/mid/MAX, counters, alternating extremes, seeded streams)",
        structures.len(),
        scripts.len()
    );
    report.push(sub);
}

pub fn replay(ctx: &Ctx, sub: &str, case: &serde_json::Value) -> SubResult {
    replay_case::<SelCase, _>(ctx, sub, case, exec_select)
}
